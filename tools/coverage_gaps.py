#!/usr/bin/env python3
"""Reads /verif/evidence/*.json and reports coverage classes that a run was expected to hit
but did not (a class that matters and stays at zero means: fix the generator, not raise
case counts). Exit 1 when a gap is found."""
import json, sys
EXPECT = {
 'C01': ['in check', 'double check', "piece pinned to mover's king", 'en-passant capture legal', 'en-passant capture pseudo-legal but illegal', 'castling legal', 'castling right with empty path', 'promotion available', 'no legal move', 'positions with all 20480 triples queried', 'perft_test(2) compared with the reference', 'directed: every pin geometry', 'directed: castling with one attacker', 'directed: en passant on every file'],
 'C02': ['castle king side', 'castle queen side', 'en passant', 'promotion with capture', 'promotion quiet', 'double step', 'capture on a rook home square', 'king/rook leaves home losing a right', 'refused: own piece', 'root with a five-digit full-move number'],
 'C03': ['checkmate', 'stalemate', 'draw by 100 half-moves', 'check by castling rook', 'discovered check', 'double check', 'en-passant discovered check', 'promotion check (knight)', 'direct check (pawn)', 'compared with builder board'],
 'C04': ['794 keys', 'transposition pair compared', 'variant: one piece moved', 'variant: other side to move', 'variant: one castling right dropped', 'variant: marker removed', 'pair differing only in clocks', 'repetition table: position seen again', 'builder history with a rejected placement'],
 'C05': ['marker, White to move', 'marker, Black to move', 'rights subset size 1', 'clock >= 1000', 'builder history with a rejected placement', 'directed: FEN text of 80 bytes or more', 'directed skeleton'],
 'C06': ['raw bytes: rejected by syntax', 'canonical FEN with edits: accepted', 'canonical FEN with edits: rejected by validation', 'well-formed but semantically wrong: rejected by validation', 'reachable: accepted', 'builder: accepted', 'builder: rejected', 'field-structured soup: rejected by validation'],
 'C07': ['family: search', 'family: iterate', 'family: print', 'family: book', 'family: bitboard', 'family: repetition', 'directed: capacity motif', 'directed: clocks at the 16-bit limit', 'directed: more than 255 repetitions', 'directed: 70000 polls on a terminal root', 'directed: 1.3M polls on a clock-drawn root'],
 'C10': ['promotions present', 'en-passant entry present', 'legals_masked start', 'mask change issued mid-promotion', 'remove_move aimed at a promotion destination'],
 'C11': ['expiry exactly on a pass boundary', 'terminal position searched', 'with pre-filled repetition history', 'also run with logging enabled', 'engine object reused across searches', 'positional evaluation on', 'directed: every named root', 'directed: constructed position with more than 128 legal moves'],
 'C12': ['one mating move', 'several mating moves', 'mating move is a capture', 'mating move is a promotion', 'mate available with the half-move clock at 98..100', 'mated position pre-filled twice', 'harvested: single legal move, and it mates', 'directed: mate by a capture that leaves only kings and minor pieces', 'directed: knight-promotion mate available', 'directed: > 128 legal moves and every mating move late'],
 'C13': ['compared at depth 0', 'compared at depth 2', 'self-terminated (mate score) results compared'],
 'C15': ['third occurrence flagged', 'fourth or later occurrence', 'illegal move offered', 'near-miss move offered', 'set_board with the current position', 'evaluate called', 'directed: knight shuffle'],
 'C18': ['structured boards, all unary operations', 'structured pairs, all binary operations'],
 'C19': ['ALL 2^32 four-byte strings', 'all 65536 two-byte strings', 'iterator op lists'],
 'C20': ['all schedules of length', 'free-running observations'],
}
gaps = 0
for cid, names in EXPECT.items():
    try:
        cl = json.load(open(f'/verif/evidence/{cid}.json'))['coverage'].get('classes', {})
    except Exception as e:
        print(f'{cid}: no evidence ({e})'); gaps += 1; continue
    for n in names:
        if not any(k.startswith(n) and v > 0 for k, v in cl.items()):
            print(f'{cid}: coverage gap: no case in class "{n}"'); gaps += 1
print('coverage classes ok' if gaps == 0 else f'{gaps} gap(s)')
sys.exit(1 if gaps else 0)
