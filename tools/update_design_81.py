#!/usr/bin/env python3
"""Rewrites the table of DESIGN.md section 8.1 from /verif/evidence/*.json (quick tier runs)."""
import json, re
STEP = {
 "C01": "lockstep differential on generated playouts (moves played with move_new / move_mut / move_into in turn) + king_legals + exhaustive pin-geometry, castling-under-attack and en-passant families",
 "C02": "successor differential on every played move and every 4th position's full move list; refusal checks; clocks over the whole FEN range and, via the builder, up to five digits",
 "C03": "moved board (any of the three move operations, recycled output buffer) vs from-scratch board; status vs reference",
 "C04": "794 keys exhaustive; transpositions; variants; repetition table model",
 "C05": "text round trips vs reference writer; builder histories vs parser; directed products (skeleton and standard placement x rights x marker x clocks), reachable material extremes, longest texts",
 "C06": "seven byte/structure generators, playability predicate; release + checked profile; chess-cli started on byte-string arguments; libFuzzer stage in thorough",
 "C07": "API scripts + directed boundary families (incl. accepted-but-unreachable en-passant/check combinations) in the checked profile; libFuzzer stage in thorough",
 "C08": "all 1 119 744 ray-subset triples x3 + generated occupancies; the same through a freshly generated bishop table (rook table in thorough); release + checked",
 "C09": "every table entry and constant",
 "C10": "iterator op lists vs set model (forks / taint for the two open findings); legals, legals_masked and king_legals starts; provided-method op",
 "C11": "every expiry index k up to min(s2, 300) + boundaries + generated k; release + checked; stall triage by node-bounded replay",
 "C12": "mating nets + harvested forced-move descendants; release + checked",
 "C13": "mirror metamorphic relation, depth by depth; release + checked",
 "C14": "boundary-set triples, all adjacent mate distances, generated triples",
 "C15": "plugin op lists vs occurrence-map model; > 255-repetition shuffle; plugin-vs-plugin games under the chess-cli bot-fight referee",
 "C16": "all moves, all mate scores, generated raw scores",
 "C17": "complete book walk + iterator-method model per node; chess-cli started on 45 scenarios; release + checked",
 "C18": "structured boards exhaustive, generated boards, iterator op lists, every provided Iterator method in every consumed-prefix state",
 "C19": "all 2^32 four-byte move strings, 65 536 two-byte strings, five-byte sweeps, enum-iterator op lists, every provided Iterator method in every (front, back) state",
 "C20": "all schedules of length <= 4 + generated long schedules + free-running mode",
}
def human(n):
    if n >= 1e9: return f"{n/1e9:.1f} x 10^9"
    if n >= 1e6: return f"{n/1e6:.1f} M"
    if n >= 1e3: return f"{n/1e3:.0f} k"
    return str(n)
rows = ["| check | deciding step | quick tier, measured on the final tree |", "|---|---|---|"]
seeds = set()
for c in sorted(STEP):
    e = json.load(open(f"/verif/evidence/{c}.json"))
    assert e["tier"] == "quick", c
    seeds.add(e.get("seed"))
    cov = e["coverage"]
    rows.append(f"| {c} | {STEP[c]} | {human(cov['evaluations'])} evaluations, {human(cov['distinct_nontrivial'])} distinct non-trivial, {e['wall_s']:.1f} s |")
L = open("/verif/DESIGN.md").read().split("\n")
b = next(i for i, l in enumerate(L) if l.startswith("| check | deciding step |"))
e = b
while L[e].startswith("|"): e += 1
L[b:e] = rows
open("/verif/DESIGN.md", "w").write("\n".join(L))
print("rows", len(rows) - 2, "seeds", seeds)
