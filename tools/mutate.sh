#!/bin/bash
# usage: mutate.sh <ID> <name> <file-relative-to-/repo> <python-replace: old|||new> [tier]
# Applies a one-off source mutation to /repo's working tree, runs the check, reverts, and
# appends the outcome to /verif/sensitivity/results.tsv. Never commits anything in /repo.
set -u
ID=$1; NAME=$2; FILE=$3; REPL=$4; TIER=${5:-quick}
cd /repo || exit 2
if [ -n "$(git status --porcelain --untracked-files=no)" ]; then echo "repo tree not clean" >&2; exit 2; fi
python3 - "$FILE" "$REPL" <<'PY' || { git checkout -- . ; exit 2; }
import sys
f, repl = sys.argv[1], sys.argv[2]
old, new = repl.split('|||')
s = open(f).read()
if s.count(old) < 1:
    print("pattern not found", file=sys.stderr); sys.exit(1)
s = s.replace(old, new, 1)
open(f, 'w').write(s)
PY
cd /verif
START=$(date +%s)
OUT=$(./check "$ID" "$TIER" 2>&1); RC=$?
END=$(date +%s)
git -C /repo checkout -- .
[ -z "$(git -C /repo status --porcelain --untracked-files=no)" ] || echo "WARNING: repo not clean after revert" >&2
VIOL=$(echo "$OUT" | grep -c '^VIOLATION')
DETAIL=$(echo "$OUT" | grep -m1 'detail:' | cut -c1-220)
printf '%s\t%s\t%s\trc=%s\tviolations=%s\t%ss\t%s\n' "$ID" "$NAME" "$TIER" "$RC" "$VIOL" "$((END-START))" "$DETAIL" | tee -a /verif/sensitivity/results.tsv
