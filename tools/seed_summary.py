#!/usr/bin/env python3
"""Prints a markdown table of all seeded changes under /verif/seeded and which check caught them."""
import json, glob, os, re
rows = []
for d in sorted(glob.glob('/verif/seeded/C*-*')):
    m = json.load(open(d + '/meta.json'))
    name = os.path.basename(d)
    summ = re.sub(r'\s+', ' ', m.get('summary', ''))[:150]
    need = re.sub(r'\s+', ' ', m.get('needs_to_manifest', ''))[:140]
    c = m.get('confirmed_by_harness_author', {})
    conf = 'yes' if c.get('demo_fails_with_change') and c.get('demo_passes_without_change') and not c.get('suite_with_change', {}).get('failed_lines') else ('partly: ' + json.dumps({k: c.get(k) for k in ('demo_fails_with_change', 'demo_passes_without_change')}) if c else 'no')
    runs = m.get('checks_run', {})
    caught = [k for k, v in runs.items() if v.get('exit') == 1]
    missed = [k for k, v in runs.items() if v.get('exit') == 0]
    other = [f"{k}(exit {v.get('exit')})" for k, v in runs.items() if v.get('exit') not in (0, 1)]
    silent = ', '.join(missed + other) or '-'
    if m.get('assessment'):
        silent += ' (' + m['assessment'].split(':')[0] + ')'
    rows.append((name, summ, need, conf, ', '.join(caught) or '-', silent))
print('| seeded change | what was changed | needs to manifest | confirmed (suite passes, demo fails/passes) | caught by | run but silent |')
print('|---|---|---|---|---|---|')
for r in rows:
    print('| ' + ' | '.join(x.replace('|', '/') for x in r) + ' |')
