#!/usr/bin/env python3
"""Run every quick check against a property-PRESERVING change (from an independent sub-agent)
applied to /repo's working tree; any alarm is a candidate false alarm to triage.
usage: refactor_eval.py <Rk> <n>"""
import json, os, shutil, subprocess, sys, time
def sh(cmd, cwd=None, timeout=7200):
    p = subprocess.run(cmd, shell=True, cwd=cwd, stdout=subprocess.PIPE, stderr=subprocess.STDOUT, text=True, timeout=timeout)
    return p.returncode, p.stdout
rk, n = sys.argv[1], sys.argv[2]
src = f'/tmp/mut/{rk}/change-{n}'
out = f'/verif/seeded/refactors/{rk}-{n}'
os.makedirs(out, exist_ok=True)
rc, o = sh('git status --porcelain --untracked-files=no', cwd='/repo')
assert not o.strip(), '/repo not clean'
rc, o = sh(f'git apply {src}/patch.diff', cwd='/repo')
if rc != 0:
    print('patch does not apply', o); sys.exit(2)
results = {}
try:
    rc, o = sh('cargo test --workspace --offline --no-fail-fast 2>&1 | grep -E "^test result|FAILED" ', cwd='/repo')
    results['repo_suite'] = {'failed_lines': [l for l in o.splitlines() if 'FAILED' in l][:5], 'ok_lines': sum(1 for l in o.splitlines() if l.startswith('test result: ok'))}
    rc, o = sh('/verif/target/release/vcheck list', cwd='/verif')
    ids = o.split()
    for c in ids:
        t0 = time.time()
        rc, o = sh(f'./check {c} quick', cwd='/verif')
        detail = next((l.strip() for l in o.splitlines() if 'detail:' in l), '')[:500]
        results[c] = {'exit': rc, 'wall_s': round(time.time() - t0, 1), 'first_detail': detail, 'tail': '' if rc == 0 else o[-600:]}
        print(c, rc, detail[:200])
finally:
    sh('git checkout -- . && git clean -fd -e target -e Cargo.lock', cwd='/repo')
rc, o = sh('git status --porcelain', cwd='/repo')
assert not o.strip(), 'repo not clean after revert: ' + o
shutil.copy(f'{src}/patch.diff', f'{out}/patch.diff')
meta = json.load(open(f'{src}/meta.json'))
meta['quick_checks_against_it'] = results
meta['alarms'] = [c for c, r in results.items() if isinstance(r, dict) and r.get('exit') == 1]
meta['inconclusive'] = [c for c, r in results.items() if isinstance(r, dict) and r.get('exit') not in (0, 1, None)]
json.dump(meta, open(f'{out}/meta.json', 'w'), indent=1)
print('ALARMS:', meta['alarms'], 'INCONCLUSIVE:', meta['inconclusive'])
