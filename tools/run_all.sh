#!/bin/bash
# usage: run_all.sh quick|thorough [seed]   -- runs every registered check, prints one line each
TIER=${1:-quick}; export VERIF_SEED=${2:-0}
cd /verif
fail=0
for id in $(/verif/target/release/vcheck list); do
  s=$(date +%s)
  out=$(./check $id $TIER 2>&1); rc=$?
  e=$(date +%s)
  line=$(echo "$out" | grep -E "^$id $TIER:" | tail -1)
  echo "rc=$rc $((e-s))s ${line:-$(echo "$out" | tail -2 | tr '\n' ' ')}"
  if [ $rc -ne 0 ]; then fail=1; echo "$out" | grep -E "VIOLATION|detail|KNOWN" | head -5; fi
done
exit $fail
