#!/usr/bin/env python3
"""Regenerates /verif/MANIFEST.json from the table below and validates it against the schema."""
import json, sys

LEVEL_NOTE_REF = ("Trusted base: the refchess mailbox model (~600 lines, no code shared with the repository) anchored to six published "
                  "perft values recomputed before every run; proptest 1.11 for generation and shrinking; the conversion boundary "
                  "(square numbering a1=0..h8=63). Sampled search: absence of violations outside the generated cases is not established.")

CHECKS = {
 "C01": dict(tech="property-based differential testing: lockstep random playouts vs an independent reference move generator (proptest, shrinking)",
             text="Exploration: every position visited by generated playouts (named roots, synthetic placements, motif constructors for en-passant/pin/castling/double-check/promotion/capacity interactions) has its generated move list compared as a set with an independent mailbox reference, and is_legal is queried on all legal moves, near misses, generated triples and periodically all 20480 triples. A directed exhaustive family covers every pin geometry. Sampled otherwise, with per-class coverage counters in evidence.",
             ref="4 C01", note=LEVEL_NOTE_REF),
 "C02": dict(tech="property-based differential testing: make-move vs reference successor, plus refusal/no-mutation checks on generated illegal triples",
             text="Exploration: every played move and periodically every legal move is applied with move_new/move_mut/move_into and compared field by field (64 squares, turn, clocks, rights and marker via text, bitboard partition) with the reference successor; generated illegal triples must be refused without touching receiver or output.",
             ref="4 C02", note=LEVEL_NOTE_REF),
 "C03": dict(tech="property-based differential + metamorphic testing: incremental board vs from-scratch construction, status vs reference",
             text="Exploration: after every generated ply the incrementally updated board is compared with the same position parsed from the reference FEN (and built with the builder): legal sets, check, state, hash, text and both debug renderings (which expose cached pin/check squares); in_check/state are compared with the reference classification. Check mechanisms are forced by generator bias classes and counted.",
             ref="4 C03", note=LEVEL_NOTE_REF),
 "C05": dict(tech="property-based round-trip testing (board -> FEN -> board, canonical FEN -> board -> FEN) against an independent FEN writer",
             text="Exploration: every board visited by generated playouts must print exactly the reference writer's canonical FEN, re-parse to an equal board (clocks, hash, debug forms), and every canonical FEN must reproduce itself; parser/builder/standard() agreement including generated builder histories with rejected placements and removals; directed products: all 16 rights subsets x 17 marker states x clock values on a skeleton, the standard placement x 16 rights subsets x side to move x clocks, reachable material extremes (nine queens, ten knights/bishops/rooks), longest FEN texts with reachable material.",
             ref="4 C05", note=LEVEL_NOTE_REF),
}

LEVEL_NOTE_ENUM = ("Trusted base: the definitions/oracles written in harness/vcheck/src (file/rank arithmetic, no tables shared with the repository), "
                   "rustc. Finite spaces named in the level text are enumerated completely (evidence carries exhaustive=true for those); the remainder is sampled.")
CHECKS.update({
 "C08": dict(tech="exhaustive enumeration of all ray-subset occupancies per square against a ray-casting oracle, plus generated full occupancies (differential)",
             text="Exploration, exhaustive on the ray-subset space: for every square and both slider kinds every subset of the square's own ray squares (1,119,744 triples) is looked up bare, with the square itself occupied and with generated off-ray noise and compared with coordinate-stepping ray casting; generated 64-bit occupancies sample the independence from off-ray squares. Index-in-range is decided by the same enumeration in the checked profile.",
             ref="4 C08", note=LEVEL_NOTE_ENUM),
 "C09": dict(tech="exhaustive enumeration of every table entry and constant against arithmetic definitions; differential against the table generator's functions",
             text="Exploration, exhaustive: all 64 squares, 64x64 pairs, both colours and all occupancies of the relevant pawn squares are compared with definitions written in |dfile|,|drank| arithmetic; all castling/promotion/double-step/adjacency constants; the generator crate's functions must reproduce the checked-in tables.",
             ref="4 C09", note=LEVEL_NOTE_ENUM),
 "C14": dict(tech="exhaustive pairs/triples over a boundary set + all adjacent mate distances + proptest triples against an order-embedding key",
             text="Exploration, exhaustive on the boundary set (27^3 triples) and on all 65535 adjacent mate distances of both variants; generated edge-biased triples beyond. Comparison, equality, partial comparison, operators, min/max/clamp, antisymmetry and transitivity are checked.",
             ref="4 C14", note=LEVEL_NOTE_ENUM),
 "C16": dict(tech="exhaustive round-trip enumeration (all 20480 moves, all 131072 mate scores) plus generated raw scores",
             text="Exploration, exhaustive for moves, 'no move' and mate scores; raw scores at the 32-bit extremes, around zero and generated. Round trip through StableChessMove and EvaluatedMove compared structurally.",
             ref="4 C16", note=LEVEL_NOTE_ENUM),
 "C17": dict(tech="complete walk of the embedded book trie in lockstep with the reference model (differential), iterator-method model per node, release and checked profiles; process-level scenarios against the chess-cli binary",
             text="Exploration, exhaustive: every one of the ~29k edges of the embedded book is checked for legality against the reference model and acceptance by move_new from the standard position; every node's iterator terminates and all its provided methods (count, last, nth, skip, step_by, fold, size_hint) agree with repeated next() in every consumed-prefix state; the checked-profile run traps any out-of-table index. A process-level stage starts the real chess-cli binary on generated position arguments and without one: a panic before its first search (book lines replayed from anything but the standard start, or a refused book move) is a violation.",
             ref="4 C17", note=LEVEL_NOTE_REF),
 "C18": dict(tech="model-based testing against a [bool;64] set model: exhaustive structured boards + generated boards + proptest iterator op lists",
             text="Exploration: every listed operation is compared with a plain set model on all empty/full/single/pair/file/rank boards and complements, on generated boards, collection from repeated squares/boards and through zero-lower-bound adaptors, and iterator op lists (next, nth incl. n >= 64, skip, step_by, clone, count, last) are checked against a Vec model with the remainder compared after every op; on small, extreme and generated sparse boards every provided Iterator method and std adaptor is compared with a slice iterator in every consumed-prefix state.",
             ref="4 C18", note=LEVEL_NOTE_ENUM),
 "C19": dict(tech="exhaustive enumeration of byte strings over finite alphabets against an independent accept predicate; round trips; iterator op lists vs slice iterators",
             text="Exploration, exhaustive on 64 squares, 256 one-byte, 65536 two-byte strings, ALL 2^32 four-byte move strings, five-byte strings over the move alphabet plus per-position sweeps over all 256 byte values, all 4096 moves in every case/separator spelling, all short op lists on the five enum iterators, and every provided Iterator/DoubleEndedIterator method (count, last, nth, nth_back, fold, try_fold, rfold, min, max, position, find, skip, take, step_by, rev, chain, zip, ...) in every (front, back) consumption state of the enum, square and line iterators against slice iterators; generated byte strings of other lengths.",
             ref="4 C19", note=LEVEL_NOTE_ENUM),
 "C20": dict(tech="schedule enumeration with a harness-owned interleaving of two OS threads against a state model (all schedules of length <= 4/5, proptest beyond), plus a schedule-independent invariant under real parallelism",
             text="Exploration, exhaustive over all operation-granularity interleavings of length <= 4 (quick) / 5 (thorough) of the eight operations on two threads; after every step both threads' is_enabled() must be explained by the model (global flag + admissible override states). Schedules of length <= 3 / 4 are additionally run each in a process of its own, so that static state of the crate is in its initial condition. Longer schedules are generated; a free-running mode checks the override invariant under real parallelism.",
             ref="4 C20", note="Trusted base: the state model in harness/vcheck/src/c20.rs; the claim (from the property) that each operation touches the single global atomic at most once, which makes operation-granularity interleavings complete; std threads and channels."),
})

CHECKS.update({
 "C06": dict(tech="property-based testing / fuzzing of the FEN parser and builder: byte-string and structure-aware generators with a validity predicate oracle (proptest; libFuzzer target in thorough)",
             text="Exploration: seven generators (raw bytes, token soup, field-structured soup, canonical FENs with 1-4 edits, well-formed but semantically wrong FENs by construction, canonical FENs of reachable positions, builder scripts) drive parse_fen / str::parse / BoardBuilder under catch_unwind; every accepted board is read back and must satisfy the playability predicate clause by clause; reachable positions (including the material extremes) must be accepted and equal the lockstep board; unreachable-but-playable positions are only held to totality and playability. A process-level stage starts the real chess-cli binary on ~570 (quick) byte-string position arguments (canonical FENs, multi-byte characters inserted at every early byte offset, non-UTF-8 bytes, keyword-like prefixes, token soup): a panic of the process is a violation. The WASM entry point (chess-wasm, compiled natively into the harness by path) is given ~200 accepted texts: it must return a game, answer 64 square reads and complete a 1 ms search without panicking (its error path needs a wasm target and is not run). Acceptance rate per generator is in evidence.",
             ref="4 C06", note=LEVEL_NOTE_REF),
 "C10": dict(tech="model-based (stateful) property testing: generated iterator-operation sequences against a set model with admissible-fork handling of two recorded findings",
             text="Exploration: generated op lists (next, len/is_empty/size_hint, set_mask, remove, remove_move, clone, count, final cover under complementary masks) on positions reached by generated playouts, legals() and legals_masked() starts, and king_legals(side to move) starts, compared after every op with the set model R/M built from the reference legal moves. Divergences are violations unless the history matches one of the two open findings recorded in known_findings.json (evaluated on the history; 60% of cases avoid them by construction so that the search continues behind them).",
             ref="4 C10", note=LEVEL_NOTE_REF + " Known findings D5i/D5ii (open) are replayed strictly on every run and reported as KNOWN-FINDING lines."),
})

LEVEL_NOTE_ENGINE = (LEVEL_NOTE_REF + " The engine is observed through public API only: a counting Timeout implementation (expiry at poll k) and a tracing Subscriber "
                     "that records the engine's own 'start depth' event; if that log line disappears the clauses that need pass boundaries are dropped, never alarmed on.")
CHECKS.update({
 "C07": dict(tech="stateful API fuzzing (proptest op scripts + directed boundary families) in a checked build profile (debug assertions + overflow checks); oracle = no trap",
             text="Exploration: generated scripts over every operation family the property names (construct via parser/builder incl. pawns on back ranks and clocks up to u16::MAX, generate/mask/iterate/remove, apply, hash, print in every format, perft, search with counting timeouts, repetition table, book descent, bitboard iterators with n up to usize::MAX) plus directed boundary families (18-entry capacity positions, 218-move position, 16-bit clocks, >255 repetitions, 65536+ cheap deepening passes, and the accepted-but-unreachable family 'en-passant marker while in check from a piece other than the double-stepped pawn' with three plies of perft) run in a profile where unchecked fast paths, debug assertions and arithmetic overflow trap. Any panic, abort or signal is a violation.",
             ref="4 C07", note="Trusted base: rustc's debug-assertion / overflow-check instrumentation and std's unsafe-precondition checks; proptest. UB that neither traps in the checked profile nor crashes is not observable (stated in DESIGN.md section 7)."),
 "C11": dict(tech="fault/schedule enumeration over the timeout-expiry instant k with a counting Timeout (every k up to the second pass boundary, boundaries +-3, generated k), legality oracle from the reference model",
             text="Exploration: for each generated position one instrumented run yields the poll counts at which deepening passes start; the search is then re-run with the limit expiring at poll k for every k up to min(s_2, 300/800), around every boundary and at generated values. Release and checked (overflow-trapping) profiles. For each k: returns within a poll bound after expiry, no panic (also with INFO/DEBUG logging enabled for small k and around boundaries), move None or reference-legal, None iff no legal move, Some once the first pass finished or whenever the search returns by itself, Some monotone in k. If the engine's pass log line is missing the boundaries are recovered by bisection over public results. A worker stalled on one case is triaged by a node-bounded replay (deterministic 'never consults its limit' verdict). Front-end stage: named roots and underpromotion-mate positions searched through the plugin's stable interface (move handed to the host must be legal), and plugin-vs-plugin games under the real chess-cli bot-fight referee (host panic = violation).",
             ref="4 C11", note=LEVEL_NOTE_ENGINE),
 "C12": dict(tech="property-based testing with constructed mating nets and harvested positions; oracle = reference enumeration of mating moves",
             text="Exploration: positions with and without a mate in one (mating-net constructors, sparse placements, playouts; half-move clock at 96..100; mated position pre-filled twice in the repetition table) are searched with the limit at the first/second pass boundary and without limit; a mating move with the mover's MateIn(1) score must come back when one exists, the score must never appear otherwise, and it must always come with a move that mates. Descendants with exactly one legal move (preferring those where it mates) and tactical back-rank positions are harvested/constructed because random generation does not reach them. Release and checked profiles; through the plugin's stable interface, mate-in-one positions are asked three times on one bot instance (limits 0, 3, none) and the unlimited answer must be the mate.",
             ref="4 C12", note=LEVEL_NOTE_ENGINE),
 "C13": dict(tech="metamorphic testing: colour-mirror relation on scores, depth by depth under each side's own pass boundaries",
             text="Exploration: each generated position without a promotion move at the root and its colour mirror are searched to every depth both complete within the poll cap; the committed scores must be negations of each other (mate-in-n swaps colour); when a mate score ends the deepening the final scores and pass counts are compared as well. Half of the positions are mating nets, sparse material and tactical back-rank positions. Moves are not compared.",
             ref="4 C13", note=LEVEL_NOTE_ENGINE),
 "C15": dict(tech="model-based (stateful) testing of the built plugin through its stable ABI: generated set-board / move / shuffle / evaluate sequences against the reference position and an occurrence map",
             text="Exploration: libchess_bot.so built from the working tree is driven through chess_api::ChessEngine with generated op lists including reversible manoeuvres that create third and later occurrences, illegal triples and near misses of legal moves, set_board (also with the current position), evaluate with counting timeouts, and a directed >255-repetition shuffle. Validity, reported board, threefold flag (exactly on the third occurrence under the calibrated counting reading) and legality of the proposed move are compared with the model. A quiet walk over hundreds of distinct positions with second and third occurrences forced at about every other position checks that nothing is forgotten in long histories. A host stage lets two copies of the plugin play each other under the real `chess-cli bot-fight` referee (an anchor of the property) at 1 ms, 3 ms and 0 s per move; a panic or abort of the host is a violation.",
             ref="4 C15", note=LEVEL_NOTE_REF + " abi_stable's loader; the occurrence-counting reading is calibrated at run start rather than assumed."),
})

CHECKS.update({
 "C04": dict(tech="exhaustive key-table enumeration + metamorphic testing (transposing move orders, single-component variants, clock-only variants) + model-based test of the repetition table",
             text="Exploration, exhaustive for the 794 keys (non-zero, pairwise distinct); generated playouts compare incrementally maintained hashes with from-scratch hashes, boards assembled by generated builder histories (rejected placements, removals) must hash like the parser's board, reorderings of four plies that the reference accepts and that reach the same key must give equal boards and equal zobrist/std hashes, single-component variants must be unequal and hash differently, clock-only variants must be equal and hash equally, and ThreeFold::add/get is compared with a map keyed by the reference position key.",
             ref="4 C04", note=LEVEL_NOTE_REF),
})

NOT_YET = {
}

def main():
    props = [json.loads(l) for l in open('/verif/properties.jsonl')]
    ids = [p['id'] for p in props]
    checks = []
    for i in ids:
        if i in CHECKS:
            c = CHECKS[i]
            checks.append({
                "property_id": i,
                "quick_cmd": f"./check {i} quick",
                "thorough_cmd": f"./check {i} thorough",
                "evidence_file": f"/verif/evidence/{i}.json",
                "replay_cmd_template": f"./check {i} --replay {{path}}",
                "engine": "vcheck",
                "level_claimed": {"category": "exploration", "text": c["text"], "design_ref": f"DESIGN.md section {c['ref']}"},
                "level_note": c["note"],
                "technique": c["tech"],
            })
    na = [{"property_id": i, "reason": NOT_YET.get(i, "check not built yet in this round (design exists in DESIGN.md section 4); nothing is claimed until its harness exists and has been validated")} for i in ids if i not in CHECKS]
    m = {
        "version": 1,
        "setup_cmd": "cd /verif/harness && CARGO_NET_OFFLINE=true cargo build --release -p vcheck && CARGO_NET_OFFLINE=true cargo build --profile checked -p vcheck && CARGO_NET_OFFLINE=true cargo build --release -p chess-bot && ([ -f /repo/Cargo.lock ] || cp /verif/harness/repo-Cargo.lock /repo/Cargo.lock) && CARGO_NET_OFFLINE=true cargo build --release --manifest-path /repo/Cargo.toml -p chess-cli",
        "hooks": {
            "guard": "rustyyato_chess_verif",
            "enable": "no hooks are needed: every observation point is public API; checks build /repo's crates as path dependencies of /verif/harness (RUSTFLAGS would carry --cfg rustyyato_chess_verif if a hook is ever added)",
            "baseline_off_cmd": "cd /repo && cargo test --workspace --no-fail-fast --offline",
            "source_commits": [],
            "add_only": True,
        },
        "engines": [
            {"name": "vcheck", "path": "/verif/harness/vcheck", "serves_properties": sorted(CHECKS.keys()),
             "kind_free_text": "Rust binary: proptest-driven generators and enumerations, independent reference model (harness/refchess), driver/worker processes, replay files"},
        ],
        "checks": checks,
        "not_applicable": na,
        "notes": "Exit codes: 0 held, 1 violation (VIOLATION line with replay file), 2 inconclusive (build failure, oracle self-test failure, watchdog). VERIF_SEED selects the PRNG seed; a run is a pure function of (tree, seed, tier). Known findings: /verif/known_findings.json.",
    }
    if not na:
        del m["not_applicable"]
        m["not_applicable"] = []
    json.dump(m, open('/verif/MANIFEST.json', 'w'), indent=1)
    try:
        import jsonschema
        jsonschema.validate(m, json.load(open('/root/.vp/MANIFEST.schema.json')))
        print("MANIFEST.json valid;", len(checks), "checks,", len(na), "not claimed")
    except ImportError:
        print("jsonschema not available; written unvalidated")

main()
