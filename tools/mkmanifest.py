#!/usr/bin/env python3
"""Regenerates /verif/MANIFEST.json from the table below and validates it against the schema."""
import json, sys

LEVEL_NOTE_REF = ("Trusted base: the refchess mailbox model (~600 lines, no code shared with the repository) anchored to six published "
                  "perft values recomputed before every run; proptest 1.11 for generation and shrinking; the conversion boundary "
                  "(square numbering a1=0..h8=63). Sampled search: absence of violations outside the generated cases is not established.")

CHECKS = {
 "C01": dict(tech="property-based differential testing: lockstep random playouts vs an independent reference move generator (proptest, shrinking)",
             text="Exploration: every position visited by generated playouts (named roots, synthetic placements, motif constructors for en-passant/pin/castling/double-check/promotion/capacity interactions) has its generated move list compared as a set with an independent mailbox reference, and is_legal is queried on all legal moves, near misses, generated triples and periodically all 20480 triples. Sampled, with per-class coverage counters in evidence.",
             ref="4 C01", note=LEVEL_NOTE_REF),
 "C02": dict(tech="property-based differential testing: make-move vs reference successor, plus refusal/no-mutation checks on generated illegal triples",
             text="Exploration: every played move and periodically every legal move is applied with move_new/move_mut/move_into and compared field by field (64 squares, turn, clocks, rights and marker via text, bitboard partition) with the reference successor; generated illegal triples must be refused without touching receiver or output.",
             ref="4 C02", note=LEVEL_NOTE_REF),
 "C03": dict(tech="property-based differential + metamorphic testing: incremental board vs from-scratch construction, status vs reference",
             text="Exploration: after every generated ply the incrementally updated board is compared with the same position parsed from the reference FEN (and built with the builder): legal sets, check, state, hash, text and both debug renderings (which expose cached pin/check squares); in_check/state are compared with the reference classification. Check mechanisms are forced by generator bias classes and counted.",
             ref="4 C03", note=LEVEL_NOTE_REF),
 "C05": dict(tech="property-based round-trip testing (board -> FEN -> board, canonical FEN -> board -> FEN) against an independent FEN writer",
             text="Exploration: every board visited by generated playouts must print exactly the reference writer's canonical FEN, re-parse to an equal board (clocks, hash, debug forms), and every canonical FEN must reproduce itself; parser/builder/standard() agreement; a directed product of all 16 rights subsets x 17 marker states x clock values.",
             ref="4 C05", note=LEVEL_NOTE_REF),
}

NOT_YET = {
}

def main():
    props = [json.loads(l) for l in open('/verif/properties.jsonl')]
    ids = [p['id'] for p in props]
    checks = []
    for i in ids:
        if i in CHECKS:
            c = CHECKS[i]
            checks.append({
                "property_id": i,
                "quick_cmd": f"./check {i} quick",
                "thorough_cmd": f"./check {i} thorough",
                "evidence_file": f"/verif/evidence/{i}.json",
                "replay_cmd_template": f"./check {i} --replay {{path}}",
                "engine": "vcheck",
                "level_claimed": {"category": "exploration", "text": c["text"], "design_ref": f"DESIGN.md section {c['ref']}"},
                "level_note": c["note"],
                "technique": c["tech"],
            })
    na = [{"property_id": i, "reason": NOT_YET.get(i, "check not built yet in this round (design exists in DESIGN.md section 4); nothing is claimed until its harness exists and has been validated")} for i in ids if i not in CHECKS]
    m = {
        "version": 1,
        "setup_cmd": "cd /verif/harness && CARGO_NET_OFFLINE=true cargo build --release -p vcheck && CARGO_NET_OFFLINE=true cargo build --profile checked -p vcheck && CARGO_NET_OFFLINE=true cargo build --release -p chess-bot",
        "hooks": {
            "guard": "rustyyato_chess_verif",
            "enable": "no hooks are needed: every observation point is public API; checks build /repo's crates as path dependencies of /verif/harness (RUSTFLAGS would carry --cfg rustyyato_chess_verif if a hook is ever added)",
            "baseline_off_cmd": "cd /repo && cargo test --workspace --no-fail-fast --offline",
            "source_commits": [],
            "add_only": True,
        },
        "engines": [
            {"name": "vcheck", "path": "/verif/harness/vcheck", "serves_properties": sorted(CHECKS.keys()),
             "kind_free_text": "Rust binary: proptest-driven generators and enumerations, independent reference model (harness/refchess), driver/worker processes, replay files"},
        ],
        "checks": checks,
        "not_applicable": na,
        "notes": "Exit codes: 0 held, 1 violation (VIOLATION line with replay file), 2 inconclusive (build failure, oracle self-test failure, watchdog). VERIF_SEED selects the PRNG seed; a run is a pure function of (tree, seed, tier). Known findings: /verif/known_findings.json.",
    }
    if not na:
        del m["not_applicable"]
        m["not_applicable"] = []
    json.dump(m, open('/verif/MANIFEST.json', 'w'), indent=1)
    try:
        import jsonschema
        jsonschema.validate(m, json.load(open('/root/.vp/MANIFEST.schema.json')))
        print("MANIFEST.json valid;", len(checks), "checks,", len(na), "not claimed")
    except ImportError:
        print("jsonschema not available; written unvalidated")

main()
