#!/usr/bin/env python3
"""Coverage-guided stage of the thorough tier for C06 (target `fen`) and C07 (target `api`).

Runs fixed-work libFuzzer campaigns (cargo-fuzz, nightly toolchain) against targets that
carry the semantic oracle inside (harness/fuzz/fuzz_targets/*.rs), from an empty corpus and
from a seeded corpus, in the default cargo-fuzz build (release + debug assertions +
overflow checks + AddressSanitizer) and, for C06, also in an -O build without debug
assertions (the shipped arithmetic, still under ASan). A crash artifact becomes a replay
file and a VIOLATION line. The result is merged into /verif/evidence/<ID>.json, which the
proptest tier has just written. If the fuzzing toolchain is unavailable the stage is
skipped (recorded in evidence) -- it never turns into a verdict.
"""
import json, os, re, shutil, subprocess, sys, time, hashlib

ID = sys.argv[1]
TARGET = {'C06': 'fen', 'C07': 'api'}[ID]
FUZZ = '/verif/harness/fuzz'
SEED = int(os.environ.get('VERIF_SEED', '0') or 0)
RUNS = int(os.environ.get('VERIF_FUZZ_RUNS', {'fen': 4_000_000, 'api': 20_000}[TARGET]))
ENV = dict(os.environ, CARGO_NET_OFFLINE='true')
EVID = f'/verif/evidence/{ID}.json'

def merge(extra, violations=0):
    try:
        ev = json.load(open(EVID))
    except Exception:
        return
    ev['coverage']['fuzz'] = extra
    if 'total_execs' in extra:
        ev['coverage']['evaluations'] = ev['coverage'].get('evaluations', 0) + extra['total_execs']
    ev['violations'] = ev.get('violations', 0) + violations
    json.dump(ev, open(EVID, 'w'), indent=2)

def skip(reason):
    print(f'fuzz stage skipped: {reason}', file=sys.stderr)
    merge({'skipped': reason})
    sys.exit(0)

def build(flags, target_dir):
    cmd = ['cargo', '+nightly', 'fuzz', 'build'] + flags + ['--target-dir', target_dir, TARGET]
    p = subprocess.run(cmd, cwd=FUZZ, env=ENV, stdout=subprocess.PIPE, stderr=subprocess.STDOUT, text=True)
    return p.returncode == 0, p.stdout[-2000:]

def find_bin(target_dir):
    for root, _, files in os.walk(target_dir):
        if TARGET in files and '/release' in root and os.access(os.path.join(root, TARGET), os.X_OK) and 'deps' not in root:
            return os.path.join(root, TARGET)
    return None

def main():
    if shutil.which('cargo') is None:
        skip('cargo not found')
    shutil.copy('/repo/Cargo.lock', f'{FUZZ}/Cargo.lock') if not os.path.exists(f'{FUZZ}/Cargo.lock') else None
    builds = [('debug-assertions+asan', [], f'{FUZZ}/target')]
    if ID == 'C06':
        builds.append(('O-no-debug-assertions+asan', ['-O'], f'{FUZZ}/target-O'))
    work = f'/verif/target/fuzz-run/{ID}-{os.getpid()}'
    shutil.rmtree(work, ignore_errors=True)
    os.makedirs(work)
    campaigns = []
    total = 0
    t0 = time.time()
    for bname, flags, tdir in builds:
        ok, log = build(flags, tdir)
        if not ok:
            if not campaigns:
                shutil.rmtree(work, ignore_errors=True)
                skip(f'cargo fuzz build failed for {bname}: {log[-300:]}')
            campaigns.append({'build': bname, 'skipped': 'build failed'})
            continue
        binp = find_bin(tdir)
        if not binp:
            campaigns.append({'build': bname, 'skipped': 'binary not found'})
            continue
        for cname in ['empty', 'seeded']:
            cdir = f'{work}/{bname}-{cname}'
            os.makedirs(cdir)
            if cname == 'seeded':
                sdir = '/verif/corpus/fuzz-fen-seeds' if TARGET == 'fen' else '/verif/corpus/fuzz-api-seeds'
                if os.path.isdir(sdir):
                    for f in os.listdir(sdir):
                        shutil.copy(os.path.join(sdir, f), cdir)
            art = f'{cdir}-artifacts/'
            os.makedirs(art)
            args = [binp, cdir, f'-runs={RUNS}', f'-seed={SEED * 4 + len(campaigns) + 1}', '-len_control=0', f'-artifact_prefix={art}', '-print_final_stats=1', '-rss_limit_mb=4096', '-timeout=120', '-max_total_time=' + os.environ.get('VERIF_FUZZ_MAX_S', '420')]
            args += ['-max_len=120', '-dict=/verif/corpus/fen.dict'] if TARGET == 'fen' else ['-max_len=600']
            p = subprocess.run(args, env=ENV, stdout=subprocess.PIPE, stderr=subprocess.STDOUT, text=True)
            out = p.stdout
            execs = int((re.findall(r'stat::number_of_executed_units:\s*(\d+)', out) or ['0'])[-1])
            cov = (re.findall(r'cov: (\d+)', out) or ['0'])[-1]
            total += execs
            rec = {'build': bname, 'corpus': cname, 'runs_requested': RUNS, 'executed': execs, 'final_cov': int(cov), 'corpus_files': len(os.listdir(cdir)), 'exit': p.returncode}
            campaigns.append(rec)
            arts = [os.path.join(art, f) for f in os.listdir(art)]
            if p.returncode != 0 and arts:
                data = open(arts[0], 'rb').read()
                detail = next((l for l in out.splitlines() if 'panicked' in l or 'C06' in l or 'C07' in l or 'ERROR: AddressSanitizer' in l), 'libFuzzer crash')[:600]
                os.makedirs('/verif/replays', exist_ok=True)
                rp = f'/verif/replays/{ID}-fuzz-{hashlib.sha1(data).hexdigest()[:16]}.json'
                json.dump({'property': ID, 'kind': 'libfuzzer', 'case': {'fuzz_bytes_hex': data.hex()}, 'detail': detail, 'build': bname}, open(rp, 'w'), indent=1)
                merge({'campaigns': campaigns, 'total_execs': total, 'wall_s': round(time.time() - t0, 1)}, violations=1)
                print(f'VIOLATION property={ID} replay={rp}')
                print(f'  detail: {detail}')
                shutil.rmtree(work, ignore_errors=True)
                sys.exit(1)
            if p.returncode != 0 and not arts:
                rec['note'] = 'non-zero exit without artifact (treated as infrastructure, not a verdict)'
    merge({'campaigns': campaigns, 'total_execs': total, 'wall_s': round(time.time() - t0, 1),
           'note': 'libFuzzer seeds pin a campaign only approximately; the saved input is the reproducible unit'})
    print(f'{ID} fuzz stage: {len(campaigns)} campaigns, {total} executions, no crash, {time.time() - t0:.0f}s')
    shutil.rmtree(work, ignore_errors=True)
    sys.exit(0)

main()
