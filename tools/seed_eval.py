#!/usr/bin/env python3
"""Confirm a seeded change produced by an independent sub-agent and run checks against it.

usage: seed_eval.py <ID> <n> [--checks C01,C03] [--tier quick] [--skip-confirm]

 A. in the scratch worktree /tmp/wt-<ID>: apply patch, run the repository's test suite
    (must pass), place the demonstration, run it (must fail); revert the patch, run the
    demonstration again (must pass); clean the worktree.
 B. apply the patch to /repo's working tree, run the named checks, revert (git checkout).
 C. store patch, demo and an augmented meta.json under /verif/seeded/<ID>-<n>/.
Nothing is ever committed in /repo.
"""
import json, os, re, shutil, subprocess, sys, time

def sh(cmd, cwd=None, timeout=3600):
    p = subprocess.run(cmd, shell=True, cwd=cwd, stdout=subprocess.PIPE, stderr=subprocess.STDOUT, text=True, timeout=timeout)
    return p.returncode, p.stdout

def main():
    ident, n = sys.argv[1], sys.argv[2]
    args = sys.argv[3:]
    checks = [ident]
    tier = 'quick'
    skip = '--skip-confirm' in args
    confirm_only = '--confirm-only' in args
    for i, a in enumerate(args):
        if a == '--checks':
            checks = args[i + 1].split(',')
        if a == '--tier':
            tier = args[i + 1]
    src = f'/tmp/mut/{ident}/change-{n}'
    wt = f'/tmp/wt-{ident}'
    meta = json.load(open(f'{src}/meta.json'))
    out = f'/verif/seeded/{ident}-{n}'
    os.makedirs(out, exist_ok=True)
    confirm = {}
    if not skip:
        sh('git checkout -- . && git clean -fd -e target', cwd=wt)
        rc, o = sh(f'git apply {src}/patch.diff', cwd=wt)
        if rc != 0:
            print('patch does not apply:', o); sys.exit(2)
        rc, o = sh('cargo test --workspace --offline --no-fail-fast 2>&1 | grep -E "^test result|FAILED|panicked|error(\\[|:)"', cwd=wt)
        failed = [l for l in o.splitlines() if 'FAILED' in l or l.startswith('error')]
        passed = sum(int(m.group(1)) for m in re.finditer(r'test result: ok\. (\d+) passed', o))
        confirm['suite_with_change'] = {'passed': passed, 'failed_lines': failed[:5]}
        # place the demo
        place = meta.get('demo_placement', '')
        m = re.search(r'([\w./-]+\.rs)', place.replace('demo.rs to ', ' to ').split(' to ')[-1]) if place else None
        dest = m.group(1) if m else 'chess-movegen/tests/demo.rs'
        dest_abs = dest if dest.startswith('/') else os.path.join(wt, dest)
        os.makedirs(os.path.dirname(dest_abs), exist_ok=True)
        shutil.copy(f'{src}/demo.rs', dest_abs)
        lines = [l for l in meta.get('demo_cmd', '').split('\n') if l.strip()]
        cmd = next((l for l in lines if 'cargo test' in l or 'cargo run' in l), lines[0] if lines else '').split('#')[0].strip()
        cmd = re.sub(r'^cd\s+\S+\s*&&\s*', '', cmd)
        if 'cargo build -p chess-bot' in cmd and '&&' in cmd:
            pass
        confirm['demo_cmd'] = cmd
        rc1, o1 = sh(cmd + ' 2>&1 | tail -15', cwd=wt)
        rc1b, _ = sh(cmd + ' >/dev/null 2>&1', cwd=wt)
        sh(f'git apply -R {src}/patch.diff', cwd=wt)
        rc2b, _ = sh(cmd + ' >/dev/null 2>&1', cwd=wt)
        confirm['demo_fails_with_change'] = rc1b != 0
        confirm['demo_passes_without_change'] = rc2b == 0
        confirm['demo_tail_with_change'] = o1[-1200:]
        os.remove(dest_abs)
        sh('git checkout -- . && git clean -fd -e target', cwd=wt)
        print(json.dumps({k: v for k, v in confirm.items() if k != 'demo_tail_with_change'}, indent=1))
    if confirm_only:
        checks = []
    # B: run checks against /repo
    results = {}
    if not confirm_only:
        rc, o = sh('git status --porcelain --untracked-files=no', cwd='/repo')
        if o.strip():
            print('/repo not clean'); sys.exit(2)
        rc, o = sh(f'git apply {src}/patch.diff', cwd='/repo')
        if rc != 0:
            print('patch does not apply to /repo:', o); sys.exit(2)
    try:
        for c in checks:
            t0 = time.time()
            rc, o = sh(f'./check {c} {tier}', cwd='/verif', timeout=7200)
            detail = next((l.strip() for l in o.splitlines() if 'detail:' in l), '')[:400]
            results[c] = {'exit': rc, 'violation_lines': sum(1 for l in o.splitlines() if l.startswith('VIOLATION')), 'wall_s': round(time.time() - t0, 1), 'first_detail': detail}
            print(c, results[c])
    finally:
        sh('git checkout -- .', cwd='/repo')
    rc, o = sh('git status --porcelain --untracked-files=no', cwd='/repo')
    assert not o.strip(), 'repo not clean after revert'
    shutil.copy(f'{src}/patch.diff', f'{out}/patch.diff')
    shutil.copy(f'{src}/demo.rs', f'{out}/demo.rs')
    prev = {}
    if os.path.exists(f'{out}/meta.json'):
        prev = json.load(open(f'{out}/meta.json'))
    meta_out = dict(meta)
    meta_out['breaks_property'] = ident
    meta_out['confirmed_by_harness_author'] = confirm or prev.get('confirmed_by_harness_author', {})
    runs = prev.get('checks_run', {})
    sd = os.environ.get('VERIF_SEED')
    runs.update({f'{c}:{tier}' + (f':seed{sd}' if sd else ''): r for c, r in results.items()})
    meta_out['checks_run'] = runs
    if prev.get('assessment'):
        meta_out['assessment'] = prev['assessment']
    meta_out['repo_commit'] = subprocess.run('git -C /repo rev-parse --short HEAD', shell=True, stdout=subprocess.PIPE, text=True).stdout.strip()
    json.dump(meta_out, open(f'{out}/meta.json', 'w'), indent=1)

main()
