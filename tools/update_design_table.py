#!/usr/bin/env python3
"""Replaces the seeded-change table in DESIGN.md (between the two markers) by the current
output of seed_summary.py."""
import subprocess
t = subprocess.run(['python3', '/verif/tools/seed_summary.py'], stdout=subprocess.PIPE, text=True).stdout.rstrip('\n').split('\n')
t = [l for l in t if l.startswith('|')]
L = open('/verif/DESIGN.md').read().split('\n')
b = L.index('<!-- seeded-table-begin -->'); e = L.index('<!-- seeded-table-end -->')
L[b + 1:e] = t
open('/verif/DESIGN.md', 'w').write('\n'.join(L))
print(len(t) - 2, 'rows')
