//! Independent mailbox reference implementation of the rules of chess.
//!
//! This crate shares no code, table or representation with the repository under
//! test. Squares are numbered a1 = 0 .. h8 = 63 (the only vocabulary shared with the
//! implementation, at the conversion boundary). Everything is written with file/rank
//! coordinate arithmetic; there are no bitboards and no lookup tables.
//!
//! Conventions that follow the repository (they are part of the listed properties):
//! * the en-passant marker is the *file* of the pawn that just made a double step and is
//!   set on every double step, whether or not a capture is possible;
//! * the canonical FEN text uses single spaces, castling letters in `KQkq` order, `-`
//!   for none, the en-passant *target square* (rank 6 when White is to move, rank 3
//!   when Black is), and prints both clocks verbatim (the standard position starts with
//!   full-move number 0 in this code base);
//! * "draw" covers stalemate and the 100-half-move rule; mate takes precedence.

use std::fmt;

#[derive(Clone, Copy, PartialEq, Eq, Debug, Hash, PartialOrd, Ord)]
pub enum P {
    Pawn,
    Knight,
    Bishop,
    Rook,
    Queen,
    King,
}

pub const ALL_P: [P; 6] = [P::Pawn, P::Knight, P::Bishop, P::Rook, P::Queen, P::King];
pub const PROMOS: [P; 4] = [P::Queen, P::Rook, P::Bishop, P::Knight];

#[derive(Clone, Copy, PartialEq, Eq, Debug, Hash, PartialOrd, Ord)]
pub enum C {
    White,
    Black,
}

impl C {
    pub fn flip(self) -> C {
        match self {
            C::White => C::Black,
            C::Black => C::White,
        }
    }
}

#[derive(Clone, Copy, PartialEq, Eq, Debug, Hash, PartialOrd, Ord)]
pub struct Mv {
    pub from: u8,
    pub to: u8,
    pub promo: Option<P>,
}

pub fn sq_name(s: u8) -> String {
    format!("{}{}", (b'a' + s % 8) as char, (b'1' + s / 8) as char)
}

impl fmt::Display for Mv {
    fn fmt(&self, f: &mut fmt::Formatter<'_>) -> fmt::Result {
        write!(f, "{}{}", sq_name(self.from), sq_name(self.to))?;
        if let Some(p) = self.promo {
            let c = match p {
                P::Queen => 'q',
                P::Rook => 'r',
                P::Bishop => 'b',
                P::Knight => 'n',
                _ => '?',
            };
            write!(f, "{c}")?;
        }
        Ok(())
    }
}

impl Mv {
    pub fn parse(s: &str) -> Option<Mv> {
        let b = s.as_bytes();
        if b.len() != 4 && b.len() != 5 {
            return None;
        }
        let sq = |f: u8, r: u8| -> Option<u8> {
            if (b'a'..=b'h').contains(&f) && (b'1'..=b'8').contains(&r) {
                Some((r - b'1') * 8 + (f - b'a'))
            } else {
                None
            }
        };
        let from = sq(b[0], b[1])?;
        let to = sq(b[2], b[3])?;
        let promo = if b.len() == 5 {
            Some(match b[4] {
                b'q' => P::Queen,
                b'r' => P::Rook,
                b'b' => P::Bishop,
                b'n' => P::Knight,
                _ => return None,
            })
        } else {
            None
        };
        Some(Mv { from, to, promo })
    }
}

/// The fields position equality is defined over (placement, side to move, castling
/// rights, en-passant file); clocks are deliberately not part of it.
#[derive(Clone, PartialEq, Eq, Hash, Debug, PartialOrd, Ord)]
pub struct Key {
    pub sq: [Option<(C, P)>; 64],
    pub turn: C,
    pub castle: [bool; 4],
    pub ep: Option<u8>,
}

#[derive(Clone, PartialEq, Eq, Debug, Hash)]
pub struct Pos {
    pub sq: [Option<(C, P)>; 64],
    pub turn: C,
    /// WK WQ BK BQ
    pub castle: [bool; 4],
    /// file of the pawn that just made a double step
    pub ep: Option<u8>,
    pub half: u32,
    pub full: u32,
}

#[derive(Clone, Copy, PartialEq, Eq, Debug, Hash)]
pub enum Status {
    Mate,
    Draw,
    Check,
    Running,
}

pub fn fl(s: u8) -> i8 {
    (s % 8) as i8
}
pub fn rk(s: u8) -> i8 {
    (s / 8) as i8
}
pub fn mk(file: i8, rank: i8) -> Option<u8> {
    if (0..8).contains(&file) && (0..8).contains(&rank) {
        Some((rank * 8 + file) as u8)
    } else {
        None
    }
}

pub const KN: [(i8, i8); 8] = [(1, 2), (2, 1), (2, -1), (1, -2), (-1, -2), (-2, -1), (-2, 1), (-1, 2)];
pub const KG: [(i8, i8); 8] = [(1, 0), (1, 1), (0, 1), (-1, 1), (-1, 0), (-1, -1), (0, -1), (1, -1)];
pub const RK: [(i8, i8); 4] = [(1, 0), (0, 1), (-1, 0), (0, -1)];
pub const BS: [(i8, i8); 4] = [(1, 1), (-1, 1), (-1, -1), (1, -1)];

/// How a move is classified (for generator bias classes and coverage counters).
#[derive(Clone, Copy, PartialEq, Eq, Debug, Default)]
pub struct MvKind {
    pub capture: bool,
    pub en_passant: bool,
    pub castle_k: bool,
    pub castle_q: bool,
    pub promotion: bool,
    pub double_step: bool,
    pub king_move: bool,
    pub pawn_move: bool,
}

impl Pos {
    pub fn empty() -> Pos {
        Pos { sq: [None; 64], turn: C::White, castle: [false; 4], ep: None, half: 0, full: 0 }
    }

    pub fn start() -> Pos {
        let mut sq = [None; 64];
        let back = [P::Rook, P::Knight, P::Bishop, P::Queen, P::King, P::Bishop, P::Knight, P::Rook];
        for i in 0..8 {
            sq[i] = Some((C::White, back[i]));
            sq[8 + i] = Some((C::White, P::Pawn));
            sq[48 + i] = Some((C::Black, P::Pawn));
            sq[56 + i] = Some((C::Black, back[i]));
        }
        Pos { sq, turn: C::White, castle: [true; 4], ep: None, half: 0, full: 0 }
    }

    pub fn key(&self) -> Key {
        Key { sq: self.sq, turn: self.turn, castle: self.castle, ep: self.ep }
    }

    pub fn king(&self, c: C) -> Option<u8> {
        (0..64u8).find(|&s| self.sq[s as usize] == Some((c, P::King)))
    }

    pub fn count(&self, c: C) -> usize {
        self.sq.iter().filter(|x| matches!(x, Some((cc, _)) if *cc == c)).count()
    }

    /// number of pieces of one kind and colour
    pub fn kind_count(&self, c: C, k: P) -> usize {
        self.sq.iter().filter(|x| **x == Some((c, k))).count()
    }

    /// Necessary material condition of reachability from the standard start: per side at most
    /// eight pawns, and every officer beyond the initial two knights, two bishops, two rooks
    /// and one queen is a promoted pawn, so pawns + surplus officers <= 8. (Bishop colours and
    /// pawn-structure capture counts are not looked at.)
    pub fn material_reachable(&self) -> bool {
        for c in [C::White, C::Black] {
            let pawns = self.kind_count(c, P::Pawn);
            // a side starts with one bishop on each square colour
            let (mut light, mut dark) = (0usize, 0usize);
            for s in 0..64u8 {
                if self.sq[s as usize] == Some((c, P::Bishop)) {
                    if (fl(s) + rk(s)) % 2 == 1 {
                        light += 1;
                    } else {
                        dark += 1;
                    }
                }
            }
            let surplus = self.kind_count(c, P::Knight).saturating_sub(2)
                + light.saturating_sub(1)
                + dark.saturating_sub(1)
                + self.kind_count(c, P::Rook).saturating_sub(2)
                + self.kind_count(c, P::Queen).saturating_sub(1);
            if pawns + surplus > 8 || self.kind_count(c, P::King) != 1 {
                return false;
            }
        }
        true
    }

    pub fn men(&self) -> usize {
        self.sq.iter().filter(|x| x.is_some()).count()
    }

    /// squares from which a piece of colour `by` attacks square `s`
    pub fn attackers(&self, s: u8, by: C) -> Vec<u8> {
        let mut out = Vec::new();
        let (sf, sr) = (fl(s), rk(s));
        for (df, dr) in KN {
            if let Some(t) = mk(sf + df, sr + dr) {
                if self.sq[t as usize] == Some((by, P::Knight)) {
                    out.push(t);
                }
            }
        }
        for (df, dr) in KG {
            if let Some(t) = mk(sf + df, sr + dr) {
                if self.sq[t as usize] == Some((by, P::King)) {
                    out.push(t);
                }
            }
        }
        // a white pawn on (sf±1, sr-1) attacks s; a black pawn on (sf±1, sr+1)
        let pr = match by {
            C::White => sr - 1,
            C::Black => sr + 1,
        };
        for df in [-1, 1] {
            if let Some(t) = mk(sf + df, pr) {
                if self.sq[t as usize] == Some((by, P::Pawn)) {
                    out.push(t);
                }
            }
        }
        for (dirs, a) in [(RK, P::Rook), (BS, P::Bishop)] {
            for (df, dr) in dirs {
                let (mut cf, mut cr) = (sf + df, sr + dr);
                while let Some(t) = mk(cf, cr) {
                    if let Some((c, p)) = self.sq[t as usize] {
                        if c == by && (p == a || p == P::Queen) {
                            out.push(t);
                        }
                        break;
                    }
                    cf += df;
                    cr += dr;
                }
            }
        }
        out
    }

    pub fn attacked(&self, s: u8, by: C) -> bool {
        !self.attackers(s, by).is_empty()
    }

    pub fn in_check(&self) -> bool {
        self.attacked(self.king(self.turn).expect("king"), self.turn.flip())
    }

    pub fn checkers(&self) -> Vec<u8> {
        self.attackers(self.king(self.turn).expect("king"), self.turn.flip())
    }

    pub fn pseudo(&self) -> Vec<Mv> {
        let mut out = Vec::new();
        let us = self.turn;
        for s in 0..64u8 {
            let Some((c, p)) = self.sq[s as usize] else { continue };
            if c != us {
                continue;
            }
            let (sf, sr) = (fl(s), rk(s));
            match p {
                P::Knight | P::King => {
                    for (df, dr) in if p == P::Knight { KN } else { KG } {
                        if let Some(t) = mk(sf + df, sr + dr) {
                            if self.sq[t as usize].map_or(true, |(c2, _)| c2 != us) {
                                out.push(Mv { from: s, to: t, promo: None });
                            }
                        }
                    }
                }
                P::Bishop | P::Rook | P::Queen => {
                    let dirs: &[(i8, i8)] = match p {
                        P::Bishop => &BS,
                        P::Rook => &RK,
                        _ => &KG,
                    };
                    for &(df, dr) in dirs {
                        let (mut cf, mut cr) = (sf + df, sr + dr);
                        while let Some(t) = mk(cf, cr) {
                            match self.sq[t as usize] {
                                None => out.push(Mv { from: s, to: t, promo: None }),
                                Some((c2, _)) => {
                                    if c2 != us {
                                        out.push(Mv { from: s, to: t, promo: None });
                                    }
                                    break;
                                }
                            }
                            cf += df;
                            cr += dr;
                        }
                    }
                }
                P::Pawn => {
                    let (dir, start, last) = match us {
                        C::White => (1, 1, 7),
                        C::Black => (-1, 6, 0),
                    };
                    let push = |to: u8, out: &mut Vec<Mv>| {
                        if rk(to) == last {
                            for pp in PROMOS {
                                out.push(Mv { from: s, to, promo: Some(pp) });
                            }
                        } else {
                            out.push(Mv { from: s, to, promo: None });
                        }
                    };
                    if let Some(t) = mk(sf, sr + dir) {
                        if self.sq[t as usize].is_none() {
                            push(t, &mut out);
                            if sr == start {
                                let t2 = mk(sf, sr + 2 * dir).unwrap();
                                if self.sq[t2 as usize].is_none() {
                                    out.push(Mv { from: s, to: t2, promo: None });
                                }
                            }
                        }
                    }
                    for df in [-1, 1] {
                        if let Some(t) = mk(sf + df, sr + dir) {
                            if let Some((c2, _)) = self.sq[t as usize] {
                                if c2 != us {
                                    push(t, &mut out);
                                }
                            } else if let Some(ef) = self.ep {
                                // the target square is behind the pawn that just double-stepped
                                let (eprank, victim_rank) = match us {
                                    C::White => (5, 4),
                                    C::Black => (2, 3),
                                };
                                if fl(t) == ef as i8
                                    && rk(t) == eprank
                                    && self.sq[mk(ef as i8, victim_rank).unwrap() as usize] == Some((us.flip(), P::Pawn))
                                {
                                    out.push(Mv { from: s, to: t, promo: None });
                                }
                            }
                        }
                    }
                }
            }
        }
        // castling (FIDE: right held, squares between empty, king not in check and
        // neither crossing nor landing on an attacked square)
        let (home, ki, qi) = match us {
            C::White => (0i8, 0, 1),
            C::Black => (7i8, 2, 3),
        };
        let e = mk(4, home).unwrap();
        let at = |f: i8| self.sq[mk(f, home).unwrap() as usize];
        let safe = |f: i8| !self.attacked(mk(f, home).unwrap(), us.flip());
        if at(4) == Some((us, P::King)) && (self.castle[ki] || self.castle[qi]) && safe(4) {
            if self.castle[ki] && at(7) == Some((us, P::Rook)) && at(5).is_none() && at(6).is_none() && safe(5) && safe(6) {
                out.push(Mv { from: e, to: mk(6, home).unwrap(), promo: None });
            }
            if self.castle[qi]
                && at(0) == Some((us, P::Rook))
                && at(1).is_none()
                && at(2).is_none()
                && at(3).is_none()
                && safe(3)
                && safe(2)
            {
                out.push(Mv { from: e, to: mk(2, home).unwrap(), promo: None });
            }
        }
        out
    }

    pub fn kind(&self, m: Mv) -> MvKind {
        let (_, p) = self.sq[m.from as usize].expect("piece on from");
        let cap = self.sq[m.to as usize].is_some();
        let ep = p == P::Pawn && fl(m.to) != fl(m.from) && !cap;
        let castle = p == P::King && (fl(m.to) - fl(m.from)).abs() == 2;
        MvKind {
            capture: cap || ep,
            en_passant: ep,
            castle_k: castle && fl(m.to) == 6,
            castle_q: castle && fl(m.to) == 2,
            promotion: m.promo.is_some(),
            double_step: p == P::Pawn && (rk(m.to) - rk(m.from)).abs() == 2,
            king_move: p == P::King,
            pawn_move: p == P::Pawn,
        }
    }

    /// apply a pseudo-legal move
    pub fn apply(&self, m: Mv) -> Pos {
        let mut n = self.clone();
        let us = self.turn;
        let (_, p) = self.sq[m.from as usize].expect("piece on from");
        let cap = self.sq[m.to as usize];
        n.sq[m.from as usize] = None;
        n.sq[m.to as usize] = Some((us, m.promo.unwrap_or(p)));
        n.ep = None;
        let mut reset = cap.is_some();
        if p == P::Pawn {
            reset = true;
            if (rk(m.to) - rk(m.from)).abs() == 2 {
                n.ep = Some(fl(m.to) as u8);
            }
            if fl(m.to) != fl(m.from) && cap.is_none() {
                let victim = mk(fl(m.to), rk(m.from)).unwrap();
                n.sq[victim as usize] = None;
            }
        }
        if p == P::King && (fl(m.to) - fl(m.from)).abs() == 2 {
            let home = rk(m.from);
            let (rf, rt) = if fl(m.to) == 6 { (7, 5) } else { (0, 3) };
            n.sq[mk(rf, home).unwrap() as usize] = None;
            n.sq[mk(rt, home).unwrap() as usize] = Some((us, P::Rook));
        }
        // a right is lost when its king or rook leaves home or its rook is captured at home
        for sqi in [m.from, m.to] {
            match sqi {
                4 => {
                    n.castle[0] = false;
                    n.castle[1] = false;
                }
                7 => n.castle[0] = false,
                0 => n.castle[1] = false,
                60 => {
                    n.castle[2] = false;
                    n.castle[3] = false;
                }
                63 => n.castle[2] = false,
                56 => n.castle[3] = false,
                _ => {}
            }
        }
        n.half = if reset { 0 } else { self.half + 1 };
        if us == C::Black {
            n.full += 1;
        }
        n.turn = us.flip();
        n
    }

    /// legal moves, sorted (from, to, promo) so that indices into the list are stable
    pub fn legal(&self) -> Vec<Mv> {
        let us = self.turn;
        let mut v: Vec<Mv> = self
            .pseudo()
            .into_iter()
            .filter(|&m| {
                let n = self.apply(m);
                !n.attacked(n.king(us).expect("king"), us.flip())
            })
            .collect();
        v.sort();
        v.dedup();
        v
    }

    pub fn status(&self) -> Status {
        let none = self.legal().is_empty();
        let chk = self.in_check();
        if none && chk {
            Status::Mate
        } else if none || self.half >= 100 {
            Status::Draw
        } else if chk {
            Status::Check
        } else {
            Status::Running
        }
    }

    pub fn placement_fen(&self) -> String {
        let mut s = String::new();
        for rank in (0..8).rev() {
            let mut empty = 0;
            for file in 0..8 {
                match self.sq[rank * 8 + file] {
                    None => empty += 1,
                    Some((c, p)) => {
                        if empty > 0 {
                            s.push_str(&empty.to_string());
                            empty = 0;
                        }
                        s.push(piece_char(c, p));
                    }
                }
            }
            if empty > 0 {
                s.push_str(&empty.to_string());
            }
            if rank > 0 {
                s.push('/');
            }
        }
        s
    }

    pub fn fen(&self) -> String {
        let mut s = self.placement_fen();
        s.push_str(if self.turn == C::White { " w " } else { " b " });
        let cs: String = self.castle.iter().zip("KQkq".chars()).filter(|(b, _)| **b).map(|(_, c)| c).collect();
        s.push_str(if cs.is_empty() { "-" } else { &cs });
        match self.ep {
            None => s.push_str(" -"),
            Some(f) => {
                s.push(' ');
                s.push((b'a' + f) as char);
                s.push(if self.turn == C::White { '6' } else { '3' });
            }
        }
        s.push_str(&format!(" {} {}", self.half, self.full));
        s
    }

    pub fn perft(&self, d: u32) -> u64 {
        if d == 0 {
            return 1;
        }
        let ms = self.legal();
        if d == 1 {
            return ms.len() as u64;
        }
        ms.into_iter().map(|m| self.apply(m).perft(d - 1)).sum()
    }

    /// Strict reader of the canonical six-field form (single spaces, KQkq order).
    pub fn from_fen(fen: &str) -> Option<Pos> {
        let parts: Vec<&str> = fen.split(' ').collect();
        if parts.len() != 6 {
            return None;
        }
        let mut sq = [None; 64];
        let rows: Vec<&str> = parts[0].split('/').collect();
        if rows.len() != 8 {
            return None;
        }
        for (i, row) in rows.iter().enumerate() {
            let rank = 7 - i;
            let mut file = 0usize;
            for ch in row.chars() {
                if let Some(d) = ch.to_digit(10) {
                    if d == 0 || d > 8 {
                        return None;
                    }
                    file += d as usize;
                    continue;
                }
                let c = if ch.is_ascii_uppercase() { C::White } else { C::Black };
                let p = match ch.to_ascii_lowercase() {
                    'p' => P::Pawn,
                    'n' => P::Knight,
                    'b' => P::Bishop,
                    'r' => P::Rook,
                    'q' => P::Queen,
                    'k' => P::King,
                    _ => return None,
                };
                if file > 7 {
                    return None;
                }
                sq[rank * 8 + file] = Some((c, p));
                file += 1;
            }
            if file != 8 {
                return None;
            }
        }
        let turn = match parts[1] {
            "w" => C::White,
            "b" => C::Black,
            _ => return None,
        };
        let mut castle = [false; 4];
        if parts[2] != "-" {
            let mut last = -1i32;
            for ch in parts[2].chars() {
                let i = "KQkq".find(ch)? as i32;
                if i <= last {
                    return None;
                }
                last = i;
                castle[i as usize] = true;
            }
            if last < 0 {
                return None;
            }
        }
        let ep = if parts[3] == "-" {
            None
        } else {
            let b = parts[3].as_bytes();
            if b.len() != 2 || !(b'a'..=b'h').contains(&b[0]) {
                return None;
            }
            let want = if turn == C::White { b'6' } else { b'3' };
            if b[1] != want {
                return None;
            }
            Some(b[0] - b'a')
        };
        let num = |s: &str| -> Option<u32> {
            if s.is_empty() || !s.bytes().all(|b| b.is_ascii_digit()) {
                return None;
            }
            s.parse().ok()
        };
        Some(Pos { sq, turn, castle, ep, half: num(parts[4])?, full: num(parts[5])? })
    }

    /// colours swapped, ranks flipped, rights swapped, same marker file
    pub fn mirror(&self) -> Pos {
        let mut sq = [None; 64];
        for s in 0..64 {
            if let Some((c, pc)) = self.sq[s] {
                sq[(7 - s / 8) * 8 + s % 8] = Some((c.flip(), pc));
            }
        }
        Pos {
            sq,
            turn: self.turn.flip(),
            castle: [self.castle[2], self.castle[3], self.castle[0], self.castle[1]],
            ep: self.ep,
            half: self.half,
            full: self.full,
        }
    }

    /// The playability predicate of property C06, clause by clause. Returns the list of
    /// violated clauses (empty = playable).
    pub fn unplayable_reasons(&self) -> Vec<&'static str> {
        let mut r = Vec::new();
        for c in [C::White, C::Black] {
            let kings = self.sq.iter().filter(|x| **x == Some((c, P::King))).count();
            if kings != 1 {
                r.push("not exactly one king per side");
            }
            if self.count(c) > 16 {
                r.push("more than 16 pieces on a side");
            }
        }
        if !r.is_empty() {
            return r;
        }
        let them = self.turn.flip();
        if self.attacked(self.king(them).unwrap(), self.turn) {
            r.push("side not to move is in check");
        }
        let need = [
            (0, 4u8, 7u8, C::White, "K right without white king on e1 and rook on h1"),
            (1, 4, 0, C::White, "Q right without white king on e1 and rook on a1"),
            (2, 60, 63, C::Black, "k right without black king on e8 and rook on h8"),
            (3, 60, 56, C::Black, "q right without black king on e8 and rook on a8"),
        ];
        for (i, k, rook, c, why) in need {
            if self.castle[i] && !(self.sq[k as usize] == Some((c, P::King)) && self.sq[rook as usize] == Some((c, P::Rook))) {
                r.push(why);
            }
        }
        if let Some(f) = self.ep {
            let (target_rank, pawn_rank) = match self.turn {
                C::White => (5, 4),
                C::Black => (2, 3),
            };
            let target = mk(f as i8, target_rank).unwrap();
            let pawn = mk(f as i8, pawn_rank).unwrap();
            if self.sq[target as usize].is_some() {
                r.push("en-passant target square occupied");
            }
            if self.sq[pawn as usize] != Some((them, P::Pawn)) {
                r.push("en-passant marker without an enemy pawn on its double-step rank");
            }
        }
        r
    }

    /// "Valid position" in the sense of DESIGN.md 3.2: playable, and if a marker is present
    /// the double step can be retracted into a position in which the side that made it was
    /// not giving check (i.e. some legal last move exists as far as these fields can tell).
    pub fn plausible(&self) -> bool {
        if !self.unplayable_reasons().is_empty() || !self.material_reachable() {
            return false;
        }
        // at most two pieces give check, and a double check always involves a line piece (it
        // arises by discovery, en-passant capture or promotion)
        let ch = self.checkers();
        if ch.len() > 2 {
            return false;
        }
        if ch.len() == 2 && !ch.iter().any(|&s| matches!(self.sq[s as usize], Some((_, P::Bishop | P::Rook | P::Queen)))) {
            return false;
        }
        // pawns never stand on the back ranks in a position reached by play
        for s in (0..8).chain(56..64) {
            if matches!(self.sq[s], Some((_, P::Pawn))) {
                return false;
            }
        }
        if let Some(f) = self.ep {
            let them = self.turn.flip();
            let (origin_rank, target_rank, pawn_rank) = match self.turn {
                C::White => (6, 5, 4),
                C::Black => (1, 2, 3),
            };
            let origin = mk(f as i8, origin_rank).unwrap();
            let target = mk(f as i8, target_rank).unwrap();
            let pawn = mk(f as i8, pawn_rank).unwrap();
            if self.sq[origin as usize].is_some() || self.sq[target as usize].is_some() {
                return false;
            }
            let mut before = self.clone();
            before.sq[pawn as usize] = None;
            before.sq[origin as usize] = Some((them, P::Pawn));
            before.turn = them;
            before.ep = None;
            // in `before` it is `them` to move, i.e. we had just moved: our king cannot have
            // been left attacked
            if before.attacked(before.king(self.turn).unwrap(), them) {
                return false;
            }
            // after a double step the only possible checkers are the pawn itself and a line piece
            // uncovered through the square the pawn left
            let k = self.king(self.turn).unwrap();
            for c in self.checkers() {
                if c == pawn {
                    continue;
                }
                let slider = matches!(self.sq[c as usize], Some((_, P::Bishop | P::Rook | P::Queen)));
                let (df, dr) = ((fl(k) - fl(c)).signum(), (rk(k) - rk(c)).signum());
                let mut through = false;
                let (mut f, mut r) = (fl(c) + df, rk(c) + dr);
                while let Some(t) = mk(f, r) {
                    if t == k {
                        break;
                    }
                    if t == origin {
                        through = true;
                    }
                    f += df;
                    r += dr;
                }
                if !slider || !through {
                    return false;
                }
            }
        }
        true
    }
}

pub fn piece_char(c: C, p: P) -> char {
    let ch = match p {
        P::Pawn => 'p',
        P::Knight => 'n',
        P::Bishop => 'b',
        P::Rook => 'r',
        P::Queen => 'q',
        P::King => 'k',
    };
    if c == C::White {
        ch.to_ascii_uppercase()
    } else {
        ch
    }
}

/// The six published perft reference values the model is anchored to.
pub const PERFT_ANCHORS: [(&str, u32, u64); 6] = [
    ("rnbqkbnr/pppppppp/8/8/8/8/PPPPPPPP/RNBQKBNR w KQkq - 0 1", 4, 197_281),
    ("r3k2r/p1ppqpb1/bn2pnp1/3PN3/1p2P3/2N2Q1p/PPPBBPPP/R3K2R w KQkq - 0 1", 3, 97_862),
    ("8/2p5/3p4/KP5r/1R3p1k/8/4P1P1/8 w - - 0 1", 5, 674_624),
    ("r3k2r/Pppp1ppp/1b3nbN/nP6/BBP1P3/q4N2/Pp1P2PP/R2Q1RK1 w kq - 0 1", 4, 422_333),
    ("rnbq1k1r/pp1Pbppp/2p5/8/2B5/8/PPP1NnPP/RNBQK2R w KQ - 1 8", 3, 62_379),
    ("r4rk1/1pp1qppp/p1np1n2/2b1p1B1/2B1P1b1/P1NP1N2/1PP1QPPP/R4RK1 w - - 0 10", 3, 89_890),
];

/// The same positions one ply shallower (also published values), for the quick tiers.
pub const PERFT_ANCHORS_SHALLOW: [(&str, u32, u64); 6] = [
    ("rnbqkbnr/pppppppp/8/8/8/8/PPPPPPPP/RNBQKBNR w KQkq - 0 1", 3, 8_902),
    ("r3k2r/p1ppqpb1/bn2pnp1/3PN3/1p2P3/2N2Q1p/PPPBBPPP/R3K2R w KQkq - 0 1", 3, 97_862),
    ("8/2p5/3p4/KP5r/1R3p1k/8/4P1P1/8 w - - 0 1", 4, 43_238),
    ("r3k2r/Pppp1ppp/1b3nbN/nP6/BBP1P3/q4N2/Pp1P2PP/R2Q1RK1 w kq - 0 1", 3, 9_467),
    ("rnbq1k1r/pp1Pbppp/2p5/8/2B5/8/PPP1NnPP/RNBQK2R w KQ - 1 8", 3, 62_379),
    ("r4rk1/1pp1qppp/p1np1n2/2b1p1B1/2B1P1b1/P1NP1N2/1PP1QPPP/R4RK1 w - - 0 10", 3, 89_890),
];

/// Recompute the anchors; `Err` means the oracle itself is broken.
pub fn self_test(deep: bool) -> Result<(), String> {
    for (fen, d, want) in if deep { PERFT_ANCHORS } else { PERFT_ANCHORS_SHALLOW } {
        let p = Pos::from_fen(fen).ok_or_else(|| format!("reference reader rejects {fen}"))?;
        let got = p.perft(d);
        if got != want {
            return Err(format!("reference perft({d}) of {fen} = {got}, published value {want}"));
        }
        if p.fen() != fen {
            return Err(format!("reference writer does not reproduce {fen}: {}", p.fen()));
        }
    }
    Ok(())
}

#[cfg(test)]
mod tests {
    use super::*;
    #[test]
    fn anchors() {
        self_test(true).unwrap();
    }
}
