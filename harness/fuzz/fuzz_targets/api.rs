#![no_main]
//! C07 coverage-guided target: bytes are decoded into a structured API script (the same
//! operations the proptest strategy generates) and interpreted; any trap is a violation.
use libfuzzer_sys::fuzz_target;

fuzz_target!(|data: &[u8]| {
    if let Err(d) = vcheck::c07::fuzz_one(data) {
        panic!("{d}");
    }
});
