#![no_main]
//! C06 coverage-guided target: bytes -> parse_fen, with the semantic oracle inside the
//! target (total, parse_fen == str::parse, accepted boards satisfy the playability predicate).
use libfuzzer_sys::fuzz_target;

fuzz_target!(|data: &[u8]| {
    if let Err(d) = vcheck::c06::check_bytes(data) {
        panic!("{d}");
    }
});
