#[doc(hidden)]
pub mod __private229 {
    #[doc(hidden)]
    pub use crate::private::*;
}
use serde_core::__private229 as serde_core_private;
