//! Library face of the harness (shared by the `vcheck` binary and the fuzz targets).

pub mod c04;
pub mod c05_extra;
pub mod c06;
pub mod c07;
pub mod c10;
pub mod c15;
pub mod c18;
pub mod c19;
pub mod c20;
pub mod checks_play;
pub mod conv;
pub mod engine;
pub mod enums;
pub mod obs;
pub mod fw;
pub mod gen;
pub mod itermodel;
pub mod play;

/// chess-wasm is a cdylib, so its source is compiled into the harness as a module: the Ok paths
/// of its entry points run natively (the error paths construct a JsError, which only exists
/// on wasm targets, and are never taken by the harness)
#[allow(dead_code, unused)]
#[path = "/repo/chess-wasm/src/lib.rs"]
pub mod wasm_front;

use fw::CheckDef;

pub fn registry() -> Vec<&'static CheckDef> {
    vec![&checks_play::C01, &checks_play::C02, &checks_play::C03, &c04::C04, &checks_play::C05, &c06::C06, &c07::C07, &c10::C10, &engine::C11, &engine::C12, &engine::C13, &c15::C15, &enums::C08, &enums::C09, &enums::C14, &enums::C16, &enums::C17, &c18::C18, &c19::C19, &c20::C20]
}
