use vcheck::fw::*;
use vcheck::{fw, gen, registry};

use std::path::Path;

fn find(id: &str) -> &'static CheckDef {
    registry().into_iter().find(|d| d.id == id).unwrap_or_else(|| {
        eprintln!("unknown check {id}");
        std::process::exit(2)
    })
}

fn main() {
    let args: Vec<String> = std::env::args().collect();
    let code = match args.get(1).map(|s| s.as_str()) {
        Some("run") => {
            let def = find(&args[2]);
            let tier = Tier::parse(&args[3]).expect("tier");
            let seed = std::env::var("VERIF_SEED").ok().and_then(|s| s.parse::<i64>().ok()).unwrap_or(0) as u64;
            driver_main(def, tier, seed)
        }
        Some("worker") => {
            let def = find(&args[2]);
            let tier = Tier::parse(&args[3]).expect("tier");
            worker_main(def, tier, args[4].parse().unwrap(), args[5].parse().unwrap(), args[6].parse().unwrap(), Path::new(&args[7]))
        }
        Some("replay-case") => replay_case_main(find(&args[2]), Path::new(&args[3])),
        Some("c20-fresh") => {
            // one C20 schedule (hex, one byte per step) in this fresh process
            let h = args.get(2).cloned().unwrap_or_default();
            let steps: Vec<u8> = (0..h.len() / 2).map(|i| u8::from_str_radix(&h[2 * i..2 * i + 2], 16).unwrap_or(0)).collect();
            match vcheck::c20::run_schedule_in(&steps, &mut fw::Stats::new(), true) {
                Ok(()) => 0,
                Err(d) => {
                    println!("{d}");
                    1
                }
            }
        }
        Some("profile-of") => {
            println!("{}", find(&args[2]).profile);
            0
        }
        Some("list") => {
            for d in registry() {
                println!("{}", d.id);
            }
            0
        }
        Some("selftest") => match selftest() {
            Ok(()) => 0,
            Err(e) => {
                eprintln!("selftest failed: {e}");
                2
            }
        },
        _ => {
            eprintln!("usage: vcheck run <ID> quick|thorough | replay-case <ID> <file> | list | selftest");
            2
        }
    };
    std::process::exit(code);
}

fn selftest() -> Result<(), String> {
    refchess::self_test(true)?;
    let mut ok = 0;
    for (i, r) in gen::ROOTS.iter().enumerate() {
        let p = refchess::Pos::from_fen(r).ok_or(format!("root {i} `{r}` not canonical"))?;
        if !p.plausible() || !p.mirror().plausible() {
            println!("root {i} `{r}` is not a valid position: {:?}", p.unplayable_reasons());
            continue;
        }
        ok += 1;
    }
    println!("reference anchors ok; {ok} named roots valid");
    // generator acceptance rates
    use proptest::strategy::Strategy;
    let strat = gen::root_strategy(28);
    let (mut acc, mut rej) = (std::collections::BTreeMap::new(), std::collections::BTreeMap::new());
    for s in 0..20000u64 {
        let r = fw::sample_value(&strat, s);
        let k = match &r {
            gen::Root::Named { .. } => "named".to_string(),
            gen::Root::Synth(_) => "synth".to_string(),
            gen::Root::Motif { kind, .. } => format!("motif{:02}", kind % gen::MOTIFS),
            gen::Root::Fen(_) => "fen".to_string(),
        };
        if gen::build_root(&r).is_some() {
            *acc.entry(k).or_insert(0u32) += 1;
        } else {
            *rej.entry(k).or_insert(0u32) += 1;
        }
    }
    for (k, a) in &acc {
        println!("  {k}: accepted {a} rejected {}", rej.get(k).copied().unwrap_or(0));
    }
    for (k, r) in &rej {
        if !acc.contains_key(k) {
            println!("  {k}: accepted 0 rejected {r}");
        }
    }
    let _ = strat.boxed();
    Ok(())
}
