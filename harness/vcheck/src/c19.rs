//! C19: square / file / rank / piece / move text forms and the enumerating iterators.

use crate::fw::*;
use chess_bitboard as bb;
use chess_bitboard::{Color, File, Piece, Pos, PromotionPiece, Rank, Side};
use chess_movegen::ChessMove;
use proptest::prelude::*;
use serde_json::{json, Value};
use std::str::FromStr;

fn file_of_byte(b: u8) -> Option<u8> {
    match b {
        b'a'..=b'h' => Some(b - b'a'),
        b'A'..=b'H' => Some(b - b'A'),
        _ => None,
    }
}
fn rank_of_byte(b: u8) -> Option<u8> {
    match b {
        b'1'..=b'8' => Some(b - b'1'),
        _ => None,
    }
}
fn piece_of_byte(b: u8) -> Option<Piece> {
    Some(match b.to_ascii_lowercase() {
        b'p' => Piece::Pawn,
        b'n' => Piece::Knight,
        b'b' => Piece::Bishop,
        b'r' => Piece::Rook,
        b'q' => Piece::Queen,
        b'k' => Piece::King,
        _ => return None,
    })
    .filter(|_| b.is_ascii_alphabetic())
}
fn promo_of_byte(b: u8) -> Option<PromotionPiece> {
    Some(match b {
        b'n' | b'N' => PromotionPiece::Knight,
        b'b' | b'B' => PromotionPiece::Bishop,
        b'r' | b'R' => PromotionPiece::Rook,
        b'q' | b'Q' => PromotionPiece::Queen,
        _ => return None,
    })
}

/// the intended language of move strings: `e2e4` or `e2-e4`, files in either case
fn move_of_bytes(s: &[u8]) -> Option<(u8, u8)> {
    let sq = |f: u8, r: u8| Some(rank_of_byte(r)? * 8 + file_of_byte(f)?);
    match s {
        [a, b, c, d] => Some((sq(*a, *b)?, sq(*c, *d)?)),
        [a, b, b'-', c, d] => Some((sq(*a, *b)?, sq(*c, *d)?)),
        _ => None,
    }
}

fn structure() -> Result<(), String> {
    for i in 0..=255u8 {
        let p = Pos::from_u8(i);
        if (i < 64) != p.is_some() {
            return Err(format!("C19 Pos::from_u8({i})"));
        }
        if (i < 8) != File::from_u8(i).is_some() || (i < 8) != Rank::from_u8(i).is_some() {
            return Err(format!("C19 File/Rank::from_u8({i})"));
        }
        if (i < 6) != Piece::from_u8(i).is_some() || (i < 2) != Color::from_u8(i).is_some() || (i < 2) != Side::from_u8(i).is_some() {
            return Err(format!("C19 Piece/Color/Side::from_u8({i})"));
        }
    }
    for i in 0..64u8 {
        let p = Pos::from_u8(i).unwrap();
        let (f, r) = (i % 8, i / 8);
        let e = |s: &str| Err(format!("C19 {s} inconsistent for square index {i}"));
        if p as u8 != i || p.to_u8() != i || Pos::const_from_u8(i) != p {
            return e("index conversion");
        }
        if p.file() as u8 != f || p.rank() as u8 != r || p.file().to_u8() != f || p.rank().to_u8() != r {
            return e("file()/rank()");
        }
        if Pos::new(File::from_u8(f).unwrap(), Rank::from_u8(r).unwrap()) != p {
            return e("Pos::new");
        }
        let nb = |df: i8, dr: i8| -> Option<Pos> {
            let (nf, nr) = (f as i8 + df, r as i8 + dr);
            if (0..8).contains(&nf) && (0..8).contains(&nr) {
                Pos::from_u8((nr * 8 + nf) as u8)
            } else {
                None
            }
        };
        if p.shift_up() != nb(0, 1) || p.shift_down() != nb(0, -1) || p.shift_left() != nb(-1, 0) || p.shift_right() != nb(1, 0) {
            return e("neighbour steps");
        }
        if p.flip_rank() as u8 != (7 - r) * 8 + f || p.flip_rank().flip_rank() != p {
            return e("flip_rank");
        }
        // text round trips
        let text = p.to_string();
        let want = format!("{}{}", (b'a' + f) as char, (b'1' + r) as char);
        if text != want {
            return Err(format!("C19 Display of square {i} is `{text}`, expected `{want}`"));
        }
        if text.parse::<Pos>() != Ok(p) || Pos::from_ascii_bytes(text.as_bytes()) != Some(p) || Pos::from_ascii_bytes(text.to_uppercase().as_bytes()) != Some(p) {
            return e("Pos text round trip");
        }
    }
    for i in 0..8u8 {
        let (f, r) = (File::from_u8(i).unwrap(), Rank::from_u8(i).unwrap());
        let e = |s: &str| Err(format!("C19 {s} inconsistent for file/rank index {i}"));
        if File::const_from_u8(i) != f || Rank::const_from_u8(i) != r {
            return e("const_from_u8");
        }
        if f.shift_left() != i.checked_sub(1).and_then(File::from_u8) || f.shift_right() != File::from_u8(i + 1) {
            return e("File shifts");
        }
        if r.shift_down() != i.checked_sub(1).and_then(Rank::from_u8) || r.shift_up() != Rank::from_u8(i + 1) {
            return e("Rank shifts");
        }
        if r.flip() as u8 != 7 - i {
            return e("Rank::flip");
        }
        if f.lower_letter() != (b'a' + i) as char || f.upper_letter() != (b'A' + i) as char {
            return e("letters");
        }
        if f.side() != if i < 4 { Side::Queen } else { Side::King } {
            return e("File::side");
        }
        for j in 0..8u8 {
            if f.dist_to(File::from_u8(j).unwrap()) != i.abs_diff(j) || r.dist_to(Rank::from_u8(j).unwrap()) != i.abs_diff(j) {
                return e("dist_to");
            }
        }
        if f.to_string() != ((b'a' + i) as char).to_string() || f.to_string().parse::<File>() != Ok(f) {
            return e("File text round trip");
        }
        if r.to_string() != ((b'1' + i) as char).to_string() || r.to_string().parse::<Rank>() != Ok(r) {
            return e("Rank text round trip");
        }
        // File::iter / Rank::iter enumerate the squares of the line in ascending order
        let fs: Vec<u8> = f.iter().map(|p| p as u8).collect();
        let rs: Vec<u8> = r.iter().map(|p| p as u8).collect();
        if fs != (0..8).map(|k| k * 8 + i).collect::<Vec<u8>>() || rs != (0..8).map(|k| i * 8 + k).collect::<Vec<u8>>() {
            return e("File::iter / Rank::iter");
        }
        if f.into_iter().count() != 8 || r.into_iter().size_hint() != (8, Some(8)) {
            return e("line iterator size");
        }
    }
    if !Color::White != Color::Black || !Color::Black != Color::White || !Side::King != Side::Queen || !Side::Queen != Side::King {
        return Err("C19 Not for Color/Side".into());
    }
    for pp in [PromotionPiece::Knight, PromotionPiece::Bishop, PromotionPiece::Rook, PromotionPiece::Queen] {
        let t = pp.to_string();
        if t.parse::<PromotionPiece>() != Ok(pp) || Piece::from(pp) != pp.to_piece() || t.parse::<Piece>() != Ok(pp.to_piece()) {
            return Err(format!("C19 PromotionPiece {pp:?} text round trip"));
        }
    }
    // non-promotion moves: Display then parse
    for a in 0..64u8 {
        for b in 0..64u8 {
            let m = ChessMove { source: Pos::from_u8(a).unwrap(), dest: Pos::from_u8(b).unwrap(), piece: None };
            let t = m.to_string();
            if t.parse::<ChessMove>() != Ok(m) || ChessMove::from_ascii_bytes(t.as_bytes()) != Some(m) {
                return Err(format!("C19 move text `{t}` does not parse back to {m:?}"));
            }
            let compact = format!("{}{}", m.source, m.dest);
            if compact.parse::<ChessMove>() != Ok(m) {
                return Err(format!("C19 move text `{compact}` does not parse back"));
            }
        }
    }
    Ok(())
}

fn one_byte(b: u8) -> Result<(), String> {
    let s = [b];
    let e = |w: &str| Err(format!("C19 {w} on byte {b:#04x} disagrees with the intended spelling set"));
    if File::from_ascii_byte(b).map(|f| f as u8) != file_of_byte(b) || File::from_ascii_bytes(&s).map(|f| f as u8) != file_of_byte(b) {
        return e("File::from_ascii_byte(s)");
    }
    if Rank::from_ascii_byte(b).map(|r| r as u8) != rank_of_byte(b) || Rank::from_ascii_bytes(&s).map(|r| r as u8) != rank_of_byte(b) {
        return e("Rank::from_ascii_byte(s)");
    }
    if Piece::from_ascii_byte(b) != piece_of_byte(b) || Piece::from_ascii_bytes(&s) != piece_of_byte(b) {
        return e("Piece::from_ascii_byte(s)");
    }
    if PromotionPiece::from_ascii_byte(b) != promo_of_byte(b) || PromotionPiece::from_ascii_bytes(&s) != promo_of_byte(b) {
        return e("PromotionPiece::from_ascii_byte(s)");
    }
    if Pos::from_ascii_bytes(&s).is_some() || ChessMove::from_ascii_bytes(&s).is_some() {
        return e("Pos/ChessMove on a single byte");
    }
    if let Ok(t) = std::str::from_utf8(&s) {
        if File::from_str(t).ok().map(|f| f as u8) != file_of_byte(b)
            || Rank::from_str(t).ok().map(|f| f as u8) != rank_of_byte(b)
            || Piece::from_str(t).ok() != piece_of_byte(b)
            || PromotionPiece::from_str(t).ok() != promo_of_byte(b)
            || Pos::from_str(t).is_ok()
        {
            return e("FromStr");
        }
    }
    Ok(())
}

fn two_bytes(a: u8, b: u8) -> Result<(), String> {
    let s = [a, b];
    let want = match (file_of_byte(a), rank_of_byte(b)) {
        (Some(f), Some(r)) => Some(r * 8 + f),
        _ => None,
    };
    let e = |w: &str| Err(format!("C19 {w} on bytes {a:#04x} {b:#04x} disagrees with the intended spelling set"));
    if Pos::from_ascii_bytes(&s).map(|p| p as u8) != want {
        return e("Pos::from_ascii_bytes");
    }
    if File::from_ascii_bytes(&s).is_some() || Rank::from_ascii_bytes(&s).is_some() || Piece::from_ascii_bytes(&s).is_some() || PromotionPiece::from_ascii_bytes(&s).is_some() || ChessMove::from_ascii_bytes(&s).is_some() {
        return e("a one-byte parser accepted two bytes");
    }
    if let Ok(t) = std::str::from_utf8(&s) {
        if Pos::from_str(t).ok().map(|p| p as u8) != want || File::from_str(t).is_ok() || Rank::from_str(t).is_ok() || Piece::from_str(t).is_ok() {
            return e("FromStr");
        }
    }
    Ok(())
}

fn move_bytes(s: &[u8]) -> Result<(), String> {
    let want = move_of_bytes(s);
    let got = ChessMove::from_ascii_bytes(s);
    let got_t = got.map(|m| (m.source as u8, m.dest as u8));
    if got_t != want || got.map_or(false, |m| m.piece.is_some()) {
        return Err(format!("C19 ChessMove::from_ascii_bytes({:?}) = {got:?}, intended language gives {want:?}", String::from_utf8_lossy(s)));
    }
    if let Ok(t) = std::str::from_utf8(s) {
        if ChessMove::from_str(t).ok().map(|m| (m.source as u8, m.dest as u8)) != want {
            return Err(format!("C19 ChessMove::from_str({t:?}) disagrees with from_ascii_bytes"));
        }
    }
    Ok(())
}

const ALPHA_FULL: &[u8] = b"abcdefghABCDEFGH12345678-09i`@I {gG\x80\xe1\x00\x7f/";
const ALPHA_SMALL: &[u8] = b"ahAH18-09i`@ \x80bB27";

// ----- enumerating iterators vs slice iterators

#[derive(Clone, Copy, Debug, PartialEq)]
enum DOp {
    Next,
    Back,
    Nth(usize),
    NthBack(usize),
}

fn dops(n: usize) -> Vec<DOp> {
    let mut v = vec![DOp::Next, DOp::Back];
    for k in 0..=n + 1 {
        v.push(DOp::Nth(k));
        v.push(DOp::NthBack(k));
    }
    // skip counts around the 8-, 16- and 32-bit truncation points
    for k in [255usize, 256, 257, 256 + n, 511, 512, 65536, 65537, 1 << 32, (1 << 32) + 1, usize::MAX - 1, usize::MAX] {
        v.push(DOp::Nth(k));
        v.push(DOp::NthBack(k));
    }
    v
}

fn drive<T: Copy + PartialEq + std::fmt::Debug, I: DoubleEndedIterator<Item = T> + Clone>(name: &str, mk: impl Fn() -> I, items: &[T], ops: &[DOp]) -> Result<(), String> {
    let mut it = mk();
    let mut sl = items.iter().copied();
    for (i, op) in ops.iter().enumerate() {
        let (g, w) = match op {
            DOp::Next => (it.next(), sl.next()),
            DOp::Back => (it.next_back(), sl.next_back()),
            DOp::Nth(k) => (it.nth(*k), sl.nth(*k)),
            DOp::NthBack(k) => (it.nth_back(*k), sl.nth_back(*k)),
        };
        if g != w {
            return Err(format!("C19 {name}::all() after ops {:?}: got {g:?}, a slice iterator gives {w:?}", &ops[..=i]));
        }
        if it.size_hint() != sl.size_hint() {
            return Err(format!("C19 {name}::all() size_hint {:?} after ops {:?}, slice iterator {:?}", it.size_hint(), &ops[..=i], sl.size_hint()));
        }
        let rest: Vec<T> = it.clone().collect();
        let wrest: Vec<T> = sl.clone().collect();
        if rest != wrest {
            return Err(format!("C19 {name}::all() remainder {rest:?} after ops {:?}, slice iterator {wrest:?}", &ops[..=i]));
        }
        let rrest: Vec<T> = it.clone().rev().collect();
        let wrrest: Vec<T> = sl.clone().rev().collect();
        if rrest != wrrest {
            return Err(format!("C19 {name}::all() reversed remainder differs after ops {:?}", &ops[..=i]));
        }
    }
    Ok(())
}

fn all_oplists(n: usize, max_len: usize, f: &mut dyn FnMut(&[DOp]) -> Result<(), String>) -> Result<u64, String> {
    fn rec(ops: &[DOp], cur: &mut Vec<DOp>, max_len: usize, f: &mut dyn FnMut(&[DOp]) -> Result<(), String>, count: &mut u64) -> Result<(), String> {
        if !cur.is_empty() {
            f(cur)?;
            *count += 1;
        }
        if cur.len() == max_len {
            return Ok(());
        }
        for o in ops {
            cur.push(*o);
            rec(ops, cur, max_len, f, count)?;
            cur.pop();
        }
        Ok(())
    }
    let ops = dops(n);
    let mut count = 0u64;
    rec(&ops, &mut vec![], max_len, f, &mut count)?;
    Ok(count)
}

fn enum_iters(which: u8, max_len: usize) -> Result<u64, String> {
    match which {
        0 => all_oplists(2, max_len, &mut |l| drive("Color", Color::all, &[Color::White, Color::Black], l)),
        1 => all_oplists(2, max_len, &mut |l| drive("Side", Side::all, &[Side::King, Side::Queen], l)),
        2 => all_oplists(6, max_len.min(3), &mut |l| drive("Piece", Piece::all, &[Piece::Pawn, Piece::Knight, Piece::Bishop, Piece::Rook, Piece::Queen, Piece::King], l)),
        3 => {
            let items: Vec<File> = (0..8).map(|i| File::from_u8(i).unwrap()).collect();
            all_oplists(8, max_len.min(3), &mut |l| drive("File", File::all, &items, l))
        }
        _ => {
            let items: Vec<Rank> = (0..8).map(|i| Rank::from_u8(i).unwrap()).collect();
            all_oplists(8, max_len.min(3), &mut |l| drive("Rank", Rank::all, &items, l))
        }
    }
}

fn iter_consumers() -> Result<(u64, u64), String> {
    use crate::itermodel::*;
    let mut t = (0u64, 0u64);
    let mut add = |x: (u64, u64)| {
        t.0 += x.0;
        t.1 += x.1;
    };
    add(all_states_de("C19 Color::all()", Color::all, &[Color::White, Color::Black], &|_, _, _, _| Ok(0u64))?);
    add(all_states_de("C19 Side::all()", Side::all, &[Side::King, Side::Queen], &|_, _, _, _| Ok(0u64))?);
    add(all_states_de("C19 Piece::all()", Piece::all, &[Piece::Pawn, Piece::Knight, Piece::Bishop, Piece::Rook, Piece::Queen, Piece::King], &|_, _, _, _| Ok(0u64))?);
    let files: Vec<File> = (0..8).map(|i| File::from_u8(i).unwrap()).collect();
    let ranks: Vec<Rank> = (0..8).map(|i| Rank::from_u8(i).unwrap()).collect();
    add(all_states_de("C19 File::all()", File::all, &files, &|n, s, a, b| ord_consumers(n, s, a, b))?);
    add(all_states_de("C19 Rank::all()", Rank::all, &ranks, &|n, s, a, b| ord_consumers(n, s, a, b))?);
    let squares: Vec<Pos> = (0..64).map(|i| Pos::from_u8(i).unwrap()).collect();
    add(all_states_fwd("C19 Pos::all()", Pos::all, &squares, true)?);
    for i in 0..8u8 {
        let line: Vec<Pos> = (0..8).map(|k| Pos::from_u8(k * 8 + i).unwrap()).collect();
        add(all_states_fwd(&format!("C19 File::{:?}.iter()", files[i as usize]), || files[i as usize].iter(), &line, true)?);
        let line: Vec<Pos> = (0..8).map(|k| Pos::from_u8(i * 8 + k).unwrap()).collect();
        add(all_states_fwd(&format!("C19 Rank::{:?}.iter()", ranks[i as usize]), || ranks[i as usize].iter(), &line, true)?);
    }
    Ok(t)
}

fn pos_all() -> Result<(), String> {
    // forward-only: next / nth / size_hint against 0..64
    for first in (0..=66usize).chain([255, 256, 257, 320, 65536, 1 << 32, usize::MAX]) {
        for second in [0usize, 1, 5, 63, 64, 200] {
            let mut it = Pos::all();
            let mut m = 0u8..64;
            for k in [first, second] {
                let g = it.nth(k).map(|p| p as u8);
                let w = m.nth(k);
                if g != w {
                    return Err(format!("C19 Pos::all() nth({k}) = {g:?}, range gives {w:?}"));
                }
                if it.size_hint() != m.size_hint() {
                    return Err(format!("C19 Pos::all() size_hint {:?} vs {:?}", it.size_hint(), m.size_hint()));
                }
            }
            if it.clone().map(|p| p as u8).collect::<Vec<_>>() != m.clone().collect::<Vec<_>>() {
                return Err("C19 Pos::all() remainder".into());
            }
        }
    }
    Ok(())
}

fn worker(ctx: &WorkerCtx) -> Result<(), Fail> {
    let f = |tag: Value, d: String| Fail { case: tag, detail: d };
    {
        let mut st = ctx.stats.borrow_mut();
        if ctx.idx == 0 {
            guarded(structure).unwrap_or_else(Err).map_err(|d| f(json!({"c19": "structure"}), d))?;
            st.eval(64 + 8 + 4096);
            st.class("index/neighbour/flip consistency and Display->parse round trips (64 squares, 8 files, 8 ranks, 4096 moves)");
            guarded(pos_all).unwrap_or_else(Err).map_err(|d| f(json!({"c19": "pos_all"}), d))?;
            for b in 0..=255u8 {
                guarded(|| one_byte(b)).unwrap_or_else(Err).map_err(|d| f(json!({"c19": "bytes", "bytes": [b]}), d))?;
                st.eval(1);
                st.nontrivial(mix(191, b as u64));
            }
            st.class("all 256 one-byte strings");
        }
        for a in 0..=255u8 {
            if !ctx.mine(a as u64) {
                continue;
            }
            for b in 0..=255u8 {
                guarded(|| two_bytes(a, b)).unwrap_or_else(Err).map_err(|d| f(json!({"c19": "bytes", "bytes": [a, b]}), d))?;
                st.eval(1);
                st.nontrivial(mix(192, (a as u64) << 8 | b as u64));
            }
        }
        st.class("all 65536 two-byte strings");
        // ALL 2^32 four-byte strings (tight loop against table-driven expectations; the slow,
        // explanatory path runs only on a mismatch)
        {
            let mut file_t = [-1i8; 256];
            let mut rank_t = [-1i8; 256];
            for x in 0..256usize {
                file_t[x] = file_of_byte(x as u8).map_or(-1, |v| v as i8);
                rank_t[x] = rank_of_byte(x as u8).map_or(-1, |v| v as i8);
            }
            for a in 0..256usize {
                if !ctx.mine(a as u64) {
                    continue;
                }
                let bad = guarded(|| -> Option<[u8; 4]> {
                    for b in 0..256usize {
                        let src = if file_t[a] >= 0 && rank_t[b] >= 0 { (rank_t[b] * 8 + file_t[a]) as i16 } else { -1 };
                        for c in 0..256usize {
                            for d in 0..256usize {
                                let s = [a as u8, b as u8, c as u8, d as u8];
                                let want: i32 = if src >= 0 && file_t[c] >= 0 && rank_t[d] >= 0 { (src as i32) << 8 | (rank_t[d] as i32 * 8 + file_t[c] as i32) } else { -1 };
                                let got: i32 = match ChessMove::from_ascii_bytes(&s) {
                                    Some(m) if m.piece.is_none() => (m.source as i32) << 8 | m.dest as i32,
                                    Some(_) => -2,
                                    None => -1,
                                };
                                if got != want {
                                    return Some(s);
                                }
                            }
                        }
                    }
                    None
                })
                .map_err(|d| f(json!({"c19": "move4-block", "first": a}), format!("C19 panic while parsing four-byte strings starting with byte {a:#04x}: {d}")))?;
                if let Some(s4) = bad {
                    let d = move_bytes(&s4).err().unwrap_or_else(|| "C19 four-byte string disagrees with the intended language".into());
                    return Err(f(json!({"c19": "move", "bytes": s4.to_vec()}), d));
                }
                st.eval(1 << 24);
            }
            st.class("ALL 2^32 four-byte strings (this worker's share)");
        }
        // five-byte strings: (a) all strings over the move alphabet, (b) every position swept over
        // all 256 byte values while the other four range over a representative set
        let rep: &[u8] = b"aHh1 8-`i09\x11\x80G";
        for p in 0..5usize {
            if !ctx.mine(p as u64 + 7) {
                continue;
            }
            let r = rep.len();
            for x in 0..256usize {
                for i in 0..r * r * r * r {
                    let o = [rep[i % r], rep[i / r % r], rep[i / (r * r) % r], rep[i / (r * r * r) % r]];
                    let mut s5 = [0u8; 5];
                    let mut k = 0;
                    for q in 0..5 {
                        if q == p {
                            s5[q] = x as u8;
                        } else {
                            s5[q] = o[k];
                            k += 1;
                        }
                    }
                    guarded(|| move_bytes(&s5)).unwrap_or_else(Err).map_err(|d| f(json!({"c19": "move", "bytes": s5.to_vec()}), d))?;
                    st.eval(1);
                }
            }
            st.class("five-byte strings: one position over all 256 bytes x representative others");
        }
        let al5: &[u8] = if ctx.tier == Tier::Thorough { ALPHA_FULL } else { ALPHA_SMALL };
        let n5 = al5.len();
        for i in 0..n5 {
            if !ctx.mine(i as u64) {
                continue;
            }
            for j in 0..n5 {
                for k in 0..n5 {
                    for l in 0..n5 {
                        for m in 0..n5 {
                            let s = [al5[i], al5[j], al5[k], al5[l], al5[m]];
                            guarded(|| move_bytes(&s)).unwrap_or_else(Err).map_err(|d| f(json!({"c19": "move", "bytes": s.to_vec()}), d))?;
                            st.eval(1);
                        }
                    }
                }
            }
        }
        st.class("all five-byte strings over the move alphabet");
        // every well-formed move spelling in every case combination, both separators
        for a in 0..64u8 {
            if !ctx.mine(a as u64) {
                continue;
            }
            for b in 0..64u8 {
                for case in 0..4u8 {
                    let fch = |s: u8, up: bool| (if up { b'A' } else { b'a' }) + s % 8;
                    let rch = |s: u8| b'1' + s / 8;
                    let s4 = [fch(a, case & 1 != 0), rch(a), fch(b, case & 2 != 0), rch(b)];
                    let s5 = [s4[0], s4[1], b'-', s4[2], s4[3]];
                    for s in [&s4[..], &s5[..]] {
                        guarded(|| move_bytes(s)).unwrap_or_else(Err).map_err(|d| f(json!({"c19": "move", "bytes": s.to_vec()}), d))?;
                        if ChessMove::from_ascii_bytes(s).map(|m| (m.source as u8, m.dest as u8)) != Some((a, b)) {
                            return Err(f(json!({"c19": "move", "bytes": s.to_vec()}), format!("C19 well-formed move text {:?} rejected or misread", String::from_utf8_lossy(s))));
                        }
                        st.eval(1);
                        st.nontrivial(digest(&s.to_vec()));
                    }
                }
            }
        }
        st.class("all 4096 moves x 4 case combinations x 2 separators accepted");
        // enumerating iterators
        for which in 0..5u8 {
            if !ctx.mine(which as u64 + 3) {
                continue;
            }
            let max_len = 3;
            let c = guarded(|| enum_iters(which, max_len)).unwrap_or_else(Err).map_err(|d| f(json!({"c19": "enum_iter", "which": which, "max_len": max_len}), d))?;
            st.eval(c);
            st.class_n("iterator op lists (front/back/nth/nth_back) compared with slice iterators", c);
        }
        // every provided iterator method (count, last, nth, fold, try_fold, min, max, ...) and the
        // adaptors built on them, in every (front, back) consumption state
        if ctx.mine(9) {
            let r = guarded(iter_consumers)
            .unwrap_or_else(Err)
            .map_err(|d| f(json!({"c19": "iter_consumers"}), d))?;
            st.eval(r.1);
            st.class_n("iterator consumption states in which every provided Iterator method was compared with a slice iterator", r.0);
        }
        st.sample(json!({"move_text": "E2-e4", "parsed": format!("{:?}", ChessMove::from_ascii_bytes(b"E2-e4"))}));
    }
    // byte strings of other lengths and arbitrary UTF-8
    let strat = prop_oneof![
        3 => prop::collection::vec(any::<u8>(), 0..10),
        3 => prop::collection::vec(prop::sample::select(ALPHA_FULL.to_vec()), 0..9),
        1 => "\\PC{0,6}".prop_map(|s| s.into_bytes()),
    ];
    run_proptest(ctx, 19, ctx.share(ctx.tier.pick(1_000_000, 10_000_000)), strat, |s| json!({"c19": "any", "bytes": s}), |s, st| {
        move_bytes(s)?;
        let none1 = |ok: bool, w: &str| if ok { Ok(()) } else { Err(format!("C19 {w} accepts {:?}", String::from_utf8_lossy(s))) };
        match s.len() {
            1 => one_byte(s[0])?,
            2 => two_bytes(s[0], s[1])?,
            _ => {
                none1(File::from_ascii_bytes(s).is_none(), "File")?;
                none1(Rank::from_ascii_bytes(s).is_none(), "Rank")?;
                none1(Piece::from_ascii_bytes(s).is_none(), "Piece")?;
                none1(PromotionPiece::from_ascii_bytes(s).is_none(), "PromotionPiece")?;
                none1(Pos::from_ascii_bytes(s).is_none(), "Pos")?;
            }
        }
        st.eval(1);
        if s.len() >= 3 {
            st.nontrivial(digest(s));
        }
        Ok(())
    })
}

fn replay(v: &Value) -> Result<(), String> {
    let bytes = || -> Vec<u8> { v["bytes"].as_array().map(|a| a.iter().map(|x| x.as_u64().unwrap_or(0) as u8).collect()).unwrap_or_default() };
    match v["c19"].as_str() {
        Some("structure") => structure(),
        Some("pos_all") => pos_all(),
        Some("bytes") => {
            let b = bytes();
            if b.len() == 1 {
                one_byte(b[0])
            } else {
                two_bytes(b[0], b[1])
            }
        }
        Some("move") => move_bytes(&bytes()),
        Some("move4-block") => {
            let a = v["first"].as_u64().unwrap_or(0) as u8;
            for b in 0..=255u8 {
                for c in 0..=255u8 {
                    for d in 0..=255u8 {
                        move_bytes(&[a, b, c, d])?;
                    }
                }
            }
            Ok(())
        }
        Some("iter_consumers") => iter_consumers().map(|_| ()),
        Some("enum_iter") => enum_iters(v["which"].as_u64().unwrap_or(0) as u8, v["max_len"].as_u64().unwrap_or(3) as usize).map(|_| ()),
        Some("any") => {
            let s = bytes();
            move_bytes(&s)?;
            match s.len() {
                1 => one_byte(s[0]),
                2 => two_bytes(s[0], s[1]),
                _ => {
                    if File::from_ascii_bytes(&s).is_some() || Rank::from_ascii_bytes(&s).is_some() || Piece::from_ascii_bytes(&s).is_some() || PromotionPiece::from_ascii_bytes(&s).is_some() || Pos::from_ascii_bytes(&s).is_some() {
                        Err("C19 a short-form parser accepts a longer string".into())
                    } else {
                        Ok(())
                    }
                }
            }
        }
        _ => Err("unknown C19 case".into()),
    }
}

pub const C19: CheckDef = CheckDef {
    id: "C19",
    worker,
    replay,
    rule: "exhaustive: 64 squares / 8 files / 8 ranks (index <-> value <-> (file,rank) <-> neighbour steps <-> flip by arithmetic; Display then parse), all 256 one-byte and all 65536 two-byte strings against an independent predicate for File/Rank/Piece/PromotionPiece/Pos parsers, ALL 2^32 four-byte strings and, for five-byte strings, all strings over the move alphabet (18 symbols quick / 37 thorough) plus every position swept over all 256 byte values against 14 representative bytes elsewhere, for ChessMove, all 4096 moves x case combinations x both separators, all op lists of length <= 3-4 over {next, next_back, nth(n), nth_back(n)} on the five enum iterators against slice iterators, Pos::all()/File::iter()/Rank::iter(); plus proptest byte strings of other lengths and arbitrary UTF-8. Non-trivial = every enumerated string/op list; distinct by bytes.",
    assumptions: &["intended spellings as stated in the property: files a-h either case, ranks 1-8, piece letters either case, moves e2e4 or e2-e4"],
    exhaustive: |_| true,
    uses_reference: false,
    workers: |_| 0,
    known_signature: no_signature,
    profile: "release",
};

#[allow(dead_code)]
fn _unused() {
    let _ = bb::BitBoard::empty();
}
