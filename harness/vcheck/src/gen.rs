//! Position generators: G1 playouts from named roots, G2 synthetic placements, G3 motif
//! families (DESIGN.md 3.2). Every random choice is a field of a proptest-generated
//! value; construction from those fields is deterministic.

use proptest::prelude::*;
use refchess::{fl, mk, rk, Mv, Pos, C, P};
use serde::{Deserialize, Serialize};

/// Named root positions: the standard position, the repository suite's FENs, the six
/// published perft positions and hand-built roots rich in en passant, castling,
/// promotion, pins and terminal states. Each is also used colour-mirrored.
pub const ROOTS: &[&str] = &[
    "rnbqkbnr/pppppppp/8/8/8/8/PPPPPPPP/RNBQKBNR w KQkq - 0 0",
    // published perft positions
    "r3k2r/p1ppqpb1/bn2pnp1/3PN3/1p2P3/2N2Q1p/PPPBBPPP/R3K2R w KQkq - 0 1",
    "8/2p5/3p4/KP5r/1R3p1k/8/4P1P1/8 w - - 0 1",
    "r3k2r/Pppp1ppp/1b3nbN/nP6/BBP1P3/q4N2/Pp1P2PP/R2Q1RK1 w kq - 0 1",
    "rnbq1k1r/pp1Pbppp/2p5/8/2B5/8/PPP1NnPP/RNBQK2R w KQ - 1 8",
    "r4rk1/1pp1qppp/p1np1n2/2b1p1B1/2B1P1b1/P1NP1N2/1PP1QPPP/R4RK1 w - - 0 10",
    // the repository's perft suite
    "8/8/1k6/2b5/2pP4/8/5K2/8 b - d3 0 1",
    "8/5k2/8/2Pp4/2B5/1K6/8/8 w - d6 0 1",
    "5k2/8/8/8/8/8/8/4K2R w K - 0 1",
    "4k2r/8/8/8/8/8/8/5K2 b k - 0 1",
    "3k4/8/8/8/8/8/8/R3K3 w Q - 0 1",
    "r3k3/8/8/8/8/8/8/3K4 b q - 0 1",
    "r3k2r/1b4bq/8/8/8/8/7B/R3K2R w KQkq - 0 1",
    "r3k2r/7b/8/8/8/8/1B4BQ/R3K2R b KQkq - 0 1",
    "r3k2r/8/3Q4/8/8/5q2/8/R3K2R b KQkq - 0 1",
    "r3k2r/8/5Q2/8/8/3q4/8/R3K2R w KQkq - 0 1",
    "2K2r2/4P3/8/8/8/8/8/3k4 w - - 0 1",
    "3K4/8/8/8/8/8/4p3/2k2R2 b - - 0 1",
    "8/8/1P2K3/8/2n5/1q6/8/5k2 b - - 0 1",
    "5K2/8/1Q6/2N5/8/1p2k3/8/8 w - - 0 1",
    "4k3/1P6/8/8/8/8/K7/8 w - - 0 1",
    "8/k7/8/8/8/8/1p6/4K3 b - - 0 1",
    "8/P1k5/K7/8/8/8/8/8 w - - 0 1",
    "8/8/8/8/8/k7/p1K5/8 b - - 0 1",
    "K1k5/8/P7/8/8/8/8/8 w - - 0 1",
    "8/8/8/8/8/p7/8/k1K5 b - - 0 1",
    "8/k1P5/8/1K6/8/8/8/8 w - - 0 1",
    "8/8/8/8/1k6/8/K1p5/8 b - - 0 1",
    "8/8/2k5/5q2/5n2/8/5K2/8 b - - 0 1",
    "8/5k2/8/5N2/5Q2/2K5/8/8 w - - 0 1",
    // hand-built: castling both ways, symmetrical development
    "r3k2r/pppq1ppp/2npbn2/2b1p3/2B1P3/2NPBN2/PPPQ1PPP/R3K2R w KQkq - 0 8",
    "r3k2r/8/8/8/8/5q2/8/R3K2R w KQkq - 0 1",
    "1r2k2r/8/8/8/8/8/8/R3K2R w KQk - 0 1",
    "r3k2r/8/8/8/8/8/6p1/R3K2R w KQkq - 0 1",
    "r3k2r/8/8/8/8/8/3p4/R3K2R w KQkq - 0 1",
    "r3k2r/8/8/8/8/2n5/8/R3K2R w KQkq - 0 1",
    "r3k2r/8/8/8/8/8/7b/R3K2R b KQkq - 0 1",
    // en-passant rich
    "rnbqkbnr/p1p1p1p1/8/1pPpPpPp/8/8/PP1P1P1P/RNBQKBNR w KQkq b6 0 5",
    "4k3/2pppp2/8/1P4P1/1p4p1/8/2PPPP2/4K3 w - - 0 1",
    "4k3/pppppppp/8/PPPPPPPP/8/8/8/4K3 b - - 0 1",
    "4k3/8/8/8/pppppppp/8/PPPPPPPP/4K3 w - - 0 1",
    "8/8/8/KPp4r/8/8/8/7k w - c6 0 1",
    "1b5k/8/8/3pP3/8/6K1/8/8 w - d6 0 1",
    "3r3k/8/8/3pP3/8/8/8/3K4 w - d6 0 1",
    "8/8/8/2k5/3Pp3/8/8/4K2B b - d3 0 1",
    "8/8/3k4/8/1pP1pP2/8/8/R3K2B b - f3 0 1",
    "7k/8/8/q2pP2K/8/8/8/8 w - d6 0 1",
    "7k/b7/8/8/3pP3/8/5K2/8 b - e3 0 1",
    "8/8/8/8/1RpP3k/8/8/4K3 b - d3 0 1",
    // promotions (quiet and capturing, onto rook home squares)
    "4k3/PPP5/8/8/8/8/ppp5/4K3 w - - 0 1",
    "r1b1k1nr/1P4P1/8/8/8/8/1p4p1/R1B1K1NR w KQkq - 0 1",
    "8/5P1k/8/8/8/8/8/4K3 w - - 0 1",
    "n1n5/PPPk4/8/8/8/8/4Kppp/5N1N b - - 0 1",
    "3r2k1/4P3/8/8/8/8/8/4K3 w - - 0 1",
    // pins and checks
    "4k3/4r3/8/b7/8/2N1B3/3PQ3/4K3 w - - 0 1",
    "4k3/8/8/8/8/3n4/4r3/4K3 w - - 0 1",
    "r2q1rk1/1b2bppp/p1nppn2/1p6/3NP3/1BN1B3/PPP1QPPP/2KR3R w - - 0 12",
    "r1bq1rk1/pp2bppp/2n1pn2/2pp4/3P1B2/2PBPN2/PP1N1PPP/R2QK2R w KQ - 0 8",
    "rnb1kbnr/pppp1ppp/8/4p3/6Pq/5P2/PPPPP2P/RNBQKBNR w KQkq - 1 3",
    "6k1/5ppp/8/8/8/8/5PPP/R5K1 w - - 0 1",
    // many moves / capacity
    "R6R/3Q4/1Q4Q1/4Q3/2Q4Q/Q4Q2/pp1Q4/kBNN1KB1 w - - 0 1",
    "7k/6pp/8/8/8/8/QQQQQQ2/QQQ1K3 w - - 0 1",
    "3Q4/1Q4Q1/4Q3/2Q4R/Q4Q2/3Q4/1Q4Rp/1K1BBNNk w - - 0 1",
    // terminal and near-terminal
    "7k/5Q2/6K1/8/8/8/8/8 b - - 0 1",
    "R6k/8/6K1/8/8/8/8/8 b - - 0 1",
    "8/8/8/4k3/8/8/8/4K2R w - - 99 80",
    "8/8/8/3k4/8/8/2Q1K3/8 w - - 0 1",
    "8/8/8/4k3/8/8/4P3/4K3 w - - 0 1",
    "6k1/8/6K1/8/8/8/8/R7 w - - 0 1",
    "k7/8/1K6/8/8/8/8/2R5 w - - 96 60",
    "8/8/8/8/8/5k2/5p2/5K2 w - - 0 1",
];

/// Suite positions that no legal game reaches (the marker could only have arisen with the
/// side not to move in check; fifteen queens a side); playable, so still useful where only
/// C06-playability and C07 matter. Nothing demands that they be accepted.
pub const UNREACHABLE_SUITE: &[&str] = &["8/5bk1/8/2Pp4/8/1K6/8/8 w - d6 0 1", "8/8/1k6/8/2pP4/8/5BK1/8 b - d3 0 1", "qqqqkqqq/qqqqqqqq/8/8/8/8/QQQQQQQQ/QQQQKQQQ w - - 0 1"];

/// Reachable positions at the material limits: one side has promoted all eight pawns to the
/// same kind of officer (nine queens, or ten knights / bishops / rooks), or to a mixture; the
/// other king sits behind a pawn shield so that neither side is in check. Both colours, both
/// sides to move.
pub fn material_extremes() -> Vec<Pos> {
    let mut out = vec![];
    // squares on files a-c (and d1..d3), none of which attacks h8 or g8 past the shield
    let pool: [u8; 16] = [8, 16, 24, 32, 40, 48, 56, 1, 9, 17, 25, 33, 41, 49, 57, 2];
    let mixes: [[P; 8]; 7] = [
        [P::Queen; 8],
        [P::Knight; 8],
        [P::Bishop; 8],
        [P::Rook; 8],
        [P::Queen, P::Queen, P::Knight, P::Knight, P::Bishop, P::Bishop, P::Rook, P::Rook],
        [P::Queen, P::Queen, P::Queen, P::Queen, P::Rook, P::Rook, P::Rook, P::Rook],
        [P::Knight, P::Knight, P::Knight, P::Knight, P::Bishop, P::Bishop, P::Bishop, P::Bishop],
    ];
    for mix in mixes {
        for base in [true, false] {
            let mut p = Pos::empty();
            p.sq[0] = Some((C::White, P::King));
            p.sq[63] = Some((C::Black, P::King));
            p.sq[62] = Some((C::Black, P::Rook));
            p.sq[54] = Some((C::Black, P::Pawn));
            p.sq[55] = Some((C::Black, P::Pawn));
            let mut kinds: Vec<P> = mix.to_vec();
            if base {
                // the seven original officers as well: sixteen men
                kinds.extend([P::Knight, P::Knight, P::Bishop, P::Bishop, P::Rook, P::Rook, P::Queen]);
            } else {
                // only the original officer(s) of the promoted kind(s)
                kinds.push(mix[0]);
            }
            for (i, k) in kinds.iter().enumerate() {
                p.sq[pool[i] as usize] = Some((C::White, *k));
            }
            p.full = 40;
            for turn in [C::White, C::Black] {
                let mut q = p.clone();
                q.turn = turn;
                if q.plausible() {
                    out.push(q.clone());
                }
                let mut m = q.mirror();
                m.full = 41;
                if m.plausible() {
                    out.push(m);
                }
            }
        }
    }
    out
}

#[derive(Clone, Debug, Serialize, Deserialize, PartialEq)]
pub struct Synth {
    pub wk: u8,
    pub bk: u8,
    /// (code, square index): code selects colour and kind, the index is mapped onto the
    /// squares still free for that kind
    pub pieces: Vec<(u8, u8)>,
    pub black_to_move: bool,
    /// requested rights WK WQ BK BQ: granting one *places* king and rook at home
    pub castle: u8,
    /// (file, neighbour flags): an enemy pawn that has just double-stepped
    pub ep: Option<(u8, u8)>,
}

#[derive(Clone, Debug, Serialize, Deserialize, PartialEq)]
pub enum Root {
    Named { idx: u16, mirror: bool },
    Synth(Synth),
    Motif { kind: u8, a: Vec<u8>, mirror: bool },
    /// explicit position (saved regression inputs only; never generated)
    Fen(String),
}

#[derive(Clone, Debug, Serialize, Deserialize, PartialEq)]
pub struct PlayCase {
    pub root: Root,
    pub half: u16,
    pub full: u16,
    /// (bias, index) per ply, see `pick`
    pub choices: Vec<(u8, u16)>,
    /// generated seed for auxiliary probes (illegal triples etc.)
    pub aux: u64,
}

pub fn build_root(r: &Root) -> Option<Pos> {
    let p = match r {
        Root::Fen(f) => Pos::from_fen(f)?,
        Root::Named { idx, mirror } => {
            let p = Pos::from_fen(ROOTS[*idx as usize % ROOTS.len()])?;
            if *mirror {
                p.mirror()
            } else {
                p
            }
        }
        Root::Synth(s) => build_synth(s)?,
        Root::Motif { kind, a, mirror } => {
            let p = build_motif(*kind, a)?;
            if *mirror {
                p.mirror()
            } else {
                p
            }
        }
    };
    if p.plausible() {
        Some(p)
    } else {
        None
    }
}

fn kings_adjacent(a: u8, b: u8) -> bool {
    (fl(a) - fl(b)).abs() <= 1 && (rk(a) - rk(b)).abs() <= 1
}

pub fn build_synth(s: &Synth) -> Option<Pos> {
    let mut p = Pos::empty();
    p.turn = if s.black_to_move { C::Black } else { C::White };
    let mut reserved = [false; 64];
    // rights first: they pin down king and rook squares
    let mut wk = s.wk % 64;
    let mut bk = s.bk % 64;
    if s.castle & 3 != 0 {
        wk = 4;
    }
    if s.castle & 12 != 0 {
        bk = 60;
    }
    if wk == bk || kings_adjacent(wk, bk) {
        // move the black king to the first square that is far enough (construction, not rejection)
        bk = (0..64u8).map(|d| (bk + d) % 64).find(|&c| c != wk && !kings_adjacent(wk, c))?;
        if s.castle & 12 != 0 && bk != 60 {
            return None;
        }
    }
    p.sq[wk as usize] = Some((C::White, P::King));
    p.sq[bk as usize] = Some((C::Black, P::King));
    for (bit, ksq, rsq, c, i) in [(1u8, 4u8, 7u8, C::White, 0usize), (2, 4, 0, C::White, 1), (4, 60, 63, C::Black, 2), (8, 60, 56, C::Black, 3)] {
        if s.castle & bit != 0 {
            if p.sq[ksq as usize] != Some((c, P::King)) || p.sq[rsq as usize].map_or(false, |x| x != (c, P::Rook)) {
                return None;
            }
            p.sq[rsq as usize] = Some((c, P::Rook));
            p.castle[i] = true;
        }
    }
    // en-passant marker: enemy pawn on its double-step rank, the two squares behind it empty
    if let Some((file, nb)) = s.ep {
        let file = (file % 8) as i8;
        let us = p.turn;
        let them = us.flip();
        let (origin_r, target_r, pawn_r) = match us {
            C::White => (6, 5, 4),
            C::Black => (1, 2, 3),
        };
        let (o, t, pw) = (mk(file, origin_r)?, mk(file, target_r)?, mk(file, pawn_r)?);
        if p.sq[o as usize].is_some() || p.sq[t as usize].is_some() || p.sq[pw as usize].is_some() {
            return None;
        }
        p.sq[pw as usize] = Some((them, P::Pawn));
        reserved[o as usize] = true;
        reserved[t as usize] = true;
        for (bit, df) in [(1u8, -1i8), (2, 1)] {
            if nb & bit != 0 {
                if let Some(n) = mk(file + df, pawn_r) {
                    if p.sq[n as usize].is_none() {
                        p.sq[n as usize] = Some((us, P::Pawn));
                    }
                }
            }
        }
        p.ep = Some(file as u8);
    }
    p.half = 0;
    p.full = 1;
    if !p.plausible() {
        return None;
    }
    // further material
    for &(code, idx) in &s.pieces {
        let c = if code & 1 == 0 { C::White } else { C::Black };
        // kind weights: pawns 6/16, knights 2, bishops 2, rooks 3, queens 3
        let kind = match (code >> 1) % 16 {
            0..=5 => P::Pawn,
            6 | 7 => P::Knight,
            8 | 9 => P::Bishop,
            10..=12 => P::Rook,
            _ => P::Queen,
        };
        if p.count(c) >= 16 {
            continue;
        }
        if kind == P::Pawn && p.sq.iter().filter(|x| **x == Some((c, P::Pawn))).count() >= 8 {
            continue;
        }
        let free: Vec<u8> = (0..64u8)
            .filter(|&q| p.sq[q as usize].is_none() && !reserved[q as usize] && (kind != P::Pawn || (1..=6).contains(&rk(q))))
            .collect();
        if free.is_empty() {
            continue;
        }
        let q = free[(idx as usize * free.len()) >> 8];
        p.sq[q as usize] = Some((c, kind));
        // construction instead of rejection: a piece that would make the position invalid
        // (side not to move attacked, marker not retractable) is simply not placed
        if !p.plausible() {
            p.sq[q as usize] = None;
        }
    }
    Some(p)
}

/// G3 motif families. `a` are free parameters (squares, piece selectors); each family is a
/// parameterised constructor, and wherever a marker is involved the double step is *played*
/// in the reference from a pre-position, so the marker arises by a legal move.
pub const MOTIFS: u8 = 13;

fn put(p: &mut Pos, s: u8, c: C, k: P) -> Option<()> {
    if p.sq[s as usize].is_some() {
        return None;
    }
    if k == P::Pawn && !(1..=6).contains(&rk(s)) {
        return None;
    }
    p.sq[s as usize] = Some((c, k));
    Some(())
}

fn slider(sel: u8, diag: bool) -> P {
    if sel & 1 == 0 {
        P::Queen
    } else if diag {
        P::Bishop
    } else {
        P::Rook
    }
}

fn core_ok(p: &Pos, forced: Option<Mv>) -> bool {
    p.plausible() && forced.map_or(true, |m| p.legal().contains(&m))
}

/// extra random material: pairs (code, square). A piece that lands on a taken or reserved
/// square, or that would invalidate the motif's core (position unplayable, forced move no
/// longer legal), is not placed -- construction with local repair instead of rejection.
fn scatter(p: &mut Pos, a: &[u8], keep: &[u8], forced: Option<Mv>) {
    for ch in a.chunks(2) {
        if ch.len() < 2 {
            break;
        }
        let c = if ch[0] & 1 == 0 { C::White } else { C::Black };
        let k = [P::Pawn, P::Knight, P::Bishop, P::Rook, P::Queen, P::Pawn, P::Knight, P::Pawn][((ch[0] >> 1) % 8) as usize];
        let s = ch[1] % 64;
        if keep.contains(&s) || p.count(c) >= 15 {
            continue;
        }
        if put(p, s, c, k).is_some() && !core_ok(p, forced) {
            p.sq[s as usize] = None;
        }
    }
}

/// place the king of colour `c` on a generated square that is free, not next to the other
/// king and not attacked in the position built so far
fn safe_king(p: &mut Pos, c: C, sel: u8, keep: &[u8]) -> Option<()> {
    let other = p.king(c.flip());
    let cands: Vec<u8> = (0..64u8)
        .filter(|&s| p.sq[s as usize].is_none() && !keep.contains(&s) && other.map_or(true, |o| !kings_adjacent(o, s)))
        .filter(|&s| {
            let mut q = p.clone();
            q.sq[s as usize] = Some((c, P::King));
            !q.attacked(s, c.flip())
        })
        .collect();
    if cands.is_empty() {
        return None;
    }
    let s = cands[(sel as usize * cands.len()) >> 8];
    p.sq[s as usize] = Some((c, P::King));
    Some(())
}

fn finish(mut p: Pos, a: &[u8], keep: &[u8], forced: Option<Mv>) -> Option<Pos> {
    if !core_ok(&p, forced) {
        return None;
    }
    scatter(&mut p, a, keep, forced);
    match forced {
        Some(m) => Some(p.apply(m)),
        None => Some(p),
    }
}

pub fn build_motif(kind: u8, a: &[u8]) -> Option<Pos> {
    let g = |i: usize| -> u8 { a.get(i).copied().unwrap_or(0) };
    let rest = |i: usize| -> &[u8] { &a[i.min(a.len())..] };
    let sgn = |x: u8| -> i8 { if x & 1 == 0 { 1 } else { -1 } };
    let mut p = Pos::empty();
    p.full = 1;
    match kind % MOTIFS {
        // 0: the two pawns alone between the white king and an enemy rook/queen on the
        //    en-passant rank (rank 5); Black then plays the double step
        0 => {
            let kf = (g(0) % 8) as i8;
            // rook file at distance >= 3 on either side, by construction
            let mut rfs: Vec<i8> = (0..8).filter(|r| (r - kf).abs() >= 3).collect();
            rfs.sort();
            let rf = rfs[(g(1) as usize * rfs.len()) >> 8];
            let (lo, hi) = (kf.min(rf), kf.max(rf));
            let span = hi - lo - 2; // number of positions for the adjacent pair strictly between
            let f1 = lo + 1 + (g(2) as i8).rem_euclid(span);
            let (wp, bp) = if g(3) & 1 == 0 { (f1, f1 + 1) } else { (f1 + 1, f1) };
            put(&mut p, mk(kf, 4)?, C::White, P::King)?;
            put(&mut p, mk(rf, 4)?, C::Black, slider(g(4), false))?;
            put(&mut p, mk(wp, 4)?, C::White, P::Pawn)?;
            put(&mut p, mk(bp, 6)?, C::Black, P::Pawn)?;
            p.turn = C::Black;
            let keep: Vec<u8> = (0..8).map(|f| mk(f, 4).unwrap()).chain([mk(bp, 5)?]).collect();
            safe_king(&mut p, C::Black, g(5), &keep)?;
            finish(p, rest(6), &keep, Some(Mv { from: mk(bp, 6)?, to: mk(bp, 4)?, promo: None }))
        }
        // 1: capturer pinned on the diagonal through the en-passant target square
        1 => {
            let f = 1 + (g(0) % 6) as i8;
            let side = sgn(g(1));
            let cap = mk(f + side, 4)?;
            // king further down the diagonal from the capturer, pinner up beyond the target
            let downs: Vec<u8> = (1..=4).filter_map(|d| mk(f + side + side * d, 4 - d)).collect();
            let ups: Vec<u8> = (1..=2).filter_map(|e| mk(f - side * e, 5 + e)).collect();
            if downs.is_empty() || ups.is_empty() {
                return None;
            }
            let king = downs[(g(2) as usize * downs.len()) >> 8];
            let pinner = ups[(g(3) as usize * ups.len()) >> 8];
            put(&mut p, king, C::White, P::King)?;
            put(&mut p, cap, C::White, P::Pawn)?;
            put(&mut p, pinner, C::Black, slider(g(4), true))?;
            put(&mut p, mk(f, 6)?, C::Black, P::Pawn)?;
            p.turn = C::Black;
            let mut keep: Vec<u8> = downs.clone();
            keep.extend(ups.iter());
            keep.extend([mk(f, 5)?, mk(f, 4)?]);
            safe_king(&mut p, C::Black, g(5), &keep)?;
            finish(p, rest(6), &keep, Some(Mv { from: mk(f, 6)?, to: mk(f, 4)?, promo: None }))
        }
        // 2: the double-stepped pawn is the only shield of the white king on its file (king
        //    below it, rook/queen above): capturing keeps the file closed -> legal
        2 => {
            let f = (g(0) % 8) as i8;
            let kr = (g(1) % 4) as i8;
            put(&mut p, mk(f, kr)?, C::White, P::King)?;
            put(&mut p, mk(f, 7)?, C::Black, slider(g(2), false))?;
            put(&mut p, mk(f, 6)?, C::Black, P::Pawn)?;
            let side = if f == 0 { 1 } else if f == 7 { -1 } else { sgn(g(3)) };
            put(&mut p, mk(f + side, 4)?, C::White, P::Pawn)?;
            p.turn = C::Black;
            let keep: Vec<u8> = (0..8).map(|r| mk(f, r).unwrap()).collect();
            safe_king(&mut p, C::Black, g(4), &keep)?;
            finish(p, rest(5), &keep, Some(Mv { from: mk(f, 6)?, to: mk(f, 4)?, promo: None }))
        }
        // 3: capturer pinned on its own file (king below, rook/queen above): capturing en
        //    passant leaves the file -> illegal. (A double-stepped pawn as the sole *diagonal*
        //    shield cannot arise by play: before the step the king would have been in check
        //    with the opponent to move.)
        3 => {
            let f = 1 + (g(0) % 6) as i8;
            let side = sgn(g(1));
            let cf = f + side;
            let kr = (g(2) % 4) as i8;
            let rr = 5 + (g(3) % 3) as i8;
            put(&mut p, mk(cf, kr)?, C::White, P::King)?;
            put(&mut p, mk(cf, 4)?, C::White, P::Pawn)?;
            put(&mut p, mk(cf, rr)?, C::Black, slider(g(4), false))?;
            put(&mut p, mk(f, 6)?, C::Black, P::Pawn)?;
            p.turn = C::Black;
            let mut keep: Vec<u8> = (0..8).map(|r| mk(cf, r).unwrap()).collect();
            keep.extend([mk(f, 5)?, mk(f, 4)?]);
            safe_king(&mut p, C::Black, g(5), &keep)?;
            finish(p, rest(6), &keep, Some(Mv { from: mk(f, 6)?, to: mk(f, 4)?, promo: None }))
        }
        // 4: check given by the double-stepped pawn itself (king on rank 4 beside it)
        4 => {
            let f = (g(0) % 8) as i8;
            let side = if f == 0 { 1 } else if f == 7 { -1 } else { sgn(g(1)) };
            put(&mut p, mk(f + side, 3)?, C::White, P::King)?;
            put(&mut p, mk(f, 6)?, C::Black, P::Pawn)?;
            let cs = if f == 0 { 1 } else if f == 7 { -1 } else { sgn(g(2)) };
            put(&mut p, mk(f + cs, 4)?, C::White, P::Pawn)?;
            if g(3) & 1 == 0 {
                if let Some(s2) = mk(f - cs, 4) {
                    let _ = put(&mut p, s2, C::White, P::Pawn);
                }
            }
            p.turn = C::Black;
            let keep = [mk(f, 5)?, mk(f, 4)?];
            safe_king(&mut p, C::Black, g(4), &keep)?;
            finish(p, rest(5), &keep, Some(Mv { from: mk(f, 6)?, to: mk(f, 4)?, promo: None }))
        }
        // 5: castling with one attacker of generated type aimed at a generated back-rank square
        5 => {
            put(&mut p, 4, C::White, P::King)?;
            put(&mut p, 0, C::White, P::Rook)?;
            put(&mut p, 7, C::White, P::Rook)?;
            p.castle = [true, true, false, false];
            let target = 1 + g(1) % 6; // b1..g1
            let kind = [P::Pawn, P::Knight, P::Bishop, P::Rook, P::Queen, P::King][(g(2) % 6) as usize];
            // candidate attacker squares: from which `kind` attacks `target` on the board so far
            let mut cands = vec![];
            for s in 8..64u8 {
                if p.sq[s as usize].is_some() || (kind == P::Pawn && !(1..=6).contains(&rk(s))) {
                    continue;
                }
                let mut q = p.clone();
                q.sq[s as usize] = Some((C::Black, kind));
                if q.attackers(target, C::Black).contains(&s) && !(kind == P::King && kings_adjacent(s, 4)) {
                    cands.push(s);
                }
            }
            if cands.is_empty() {
                return None;
            }
            let s = cands[(g(3) as usize * cands.len()) >> 8];
            put(&mut p, s, C::Black, kind)?;
            if kind != P::King {
                safe_king(&mut p, C::Black, g(0), &[])?;
            }
            // optionally occupy one path square
            if g(4) % 4 == 0 {
                let b = [1u8, 2, 3, 5, 6][(g(5) % 5) as usize];
                let _ = put(&mut p, b, if g(6) & 1 == 0 { C::White } else { C::Black }, P::Knight);
            }
            p.turn = C::White;
            let keep: Vec<u8> = (1..7).collect();
            finish(p, rest(7), &keep, None)
        }
        // 6: double check by a discovering move: a black piece standing between its own
        //    slider and the white king moves away giving check itself
        6 => {
            let king = g(0) % 64;
            put(&mut p, king, C::White, P::King)?;
            // directions with room for two more squares
            let dirs: Vec<(i8, i8)> = refchess::KG.iter().copied().filter(|(df, dr)| mk(fl(king) + 2 * df, rk(king) + 2 * dr).is_some()).collect();
            let (df, dr) = dirs[(g(1) as usize * dirs.len()) >> 8];
            let diag = df != 0 && dr != 0;
            let line: Vec<u8> = (1..8).map_while(|d| mk(fl(king) + df * d, rk(king) + dr * d)).collect();
            let i_mid = (g(2) as usize * (line.len() - 1)) >> 8;
            let i_far = i_mid + 1 + ((g(3) as usize * (line.len() - 1 - i_mid)) >> 8);
            let (mid, far) = (line[i_mid], line[i_far]);
            put(&mut p, far, C::Black, slider(g(4), diag))?;
            let mover = if g(5) & 1 == 0 { P::Knight } else if diag { P::Rook } else { P::Bishop };
            put(&mut p, mid, C::Black, mover)?;
            p.turn = C::Black;
            safe_king(&mut p, C::Black, g(6), &line)?;
            if !core_ok(&p, None) {
                return None;
            }
            scatter(&mut p, rest(8), &line, None);
            // play a move of `mid` that gives double check if there is one, else any check, else any
            let ms: Vec<Mv> = p.legal().into_iter().filter(|m| m.from == mid).collect();
            if ms.is_empty() {
                return None;
            }
            let dbl: Vec<Mv> = ms.iter().copied().filter(|m| p.apply(*m).checkers().len() >= 2).collect();
            let pool = if dbl.is_empty() { ms } else { dbl };
            let m = pool[(g(7) as usize * pool.len()) >> 8];
            Some(p.apply(m))
        }
        // 7: promotion about to happen next to the enemy king (direct / knight / discovered checks)
        7 => {
            let f = (g(0) % 8) as i8;
            put(&mut p, mk(f, 6)?, C::White, P::Pawn)?;
            let kf = (f + (g(1) % 5) as i8 - 2).clamp(0, 7);
            let kr = 5 + (g(2) % 3) as i8;
            let ks = mk(kf, kr)?;
            if ks == mk(f, 6)? {
                return None;
            }
            put(&mut p, ks, C::Black, P::King)?;
            // capture targets on the last rank
            if g(4) & 1 == 0 {
                if let Some(t) = mk(f + 1, 7) {
                    let _ = put(&mut p, t, C::Black, [P::Rook, P::Knight, P::Bishop, P::Queen][(g(5) % 4) as usize]);
                }
            }
            if g(4) & 2 == 0 {
                if let Some(t) = mk(f - 1, 7) {
                    let _ = put(&mut p, t, C::Black, [P::Rook, P::Knight, P::Bishop, P::Queen][(g(6) % 4) as usize]);
                }
            }
            // a white slider behind the pawn for discovered checks
            if g(7) & 1 == 0 {
                let _ = put(&mut p, mk(f, (g(8) % 5) as i8)?, C::White, P::Rook);
            }
            p.turn = C::White;
            safe_king(&mut p, C::White, g(3), &[])?;
            // black's pieces may not attack the white king's... they may: White is to move
            // but White's pieces may not attack the black king: repair by dropping the rook
            if !core_ok(&p, None) {
                for s in 0..64 {
                    if p.sq[s] == Some((C::White, P::Rook)) {
                        p.sq[s] = None;
                    }
                }
            }
            finish(p, rest(9), &[], None)
        }
        // 8: capacity: 16 mobile white pieces, two of them pawns that may also capture en
        //    passant (18 move-list entries), Black plays the double step
        8 => {
            let f = 1 + (g(0) % 6) as i8;
            put(&mut p, mk(f, 6)?, C::Black, P::Pawn)?;
            put(&mut p, mk(f - 1, 4)?, C::White, P::Pawn)?;
            put(&mut p, mk(f + 1, 4)?, C::White, P::Pawn)?;
            put(&mut p, g(2) % 16, C::White, P::King)?;
            p.turn = C::Black;
            let keep = [mk(f, 5)?, mk(f, 4)?];
            safe_king(&mut p, C::Black, 255 - g(1) % 64, &keep)?;
            let forced = Some(Mv { from: mk(f, 6)?, to: mk(f, 4)?, promo: None });
            if !core_ok(&p, forced) {
                return None;
            }
            // 13 more mobile white pieces on generated squares of ranks 1-4 (kept only when the
            // position stays valid)
            let mut placed = 0;
            let mut i = 3;
            while placed < 13 && i < 120 {
                let s = g(i % a.len().max(1)).wrapping_add((i / a.len().max(1)) as u8 * 7) % 32;
                let k = [P::Queen, P::Rook, P::Bishop, P::Knight, P::Queen, P::Knight][(g((i + 1) % a.len().max(1)) % 6) as usize];
                if !keep.contains(&s) && put(&mut p, s, C::White, k).is_some() {
                    if core_ok(&p, forced) {
                        placed += 1;
                    } else {
                        p.sq[s as usize] = None;
                    }
                }
                i += 2;
            }
            Some(p.apply(forced.unwrap()))
        }
        // 9: mate / stalemate nets: lone king on the edge against king + heavy pieces
        9 => {
            let edge = g(0) % 28;
            let ks = match edge {
                0..=7 => edge,
                8..=15 => 56 + (edge - 8),
                16..=21 => 8 * (1 + edge - 16),
                _ => 8 * (1 + edge - 22) + 7,
            };
            put(&mut p, ks, C::Black, P::King)?;
            p.turn = if g(9) & 1 == 0 { C::White } else { C::Black };
            safe_king(&mut p, C::White, g(1), &[])?;
            let n = 1 + g(2) % 3;
            for i in 0..n as usize {
                let k = [P::Queen, P::Rook, P::Rook, P::Bishop, P::Knight, P::Queen][(g(3 + 2 * i) % 6) as usize];
                let s = g(4 + 2 * i) % 64;
                if put(&mut p, s, C::White, k).is_some() && !core_ok(&p, None) {
                    p.sq[s as usize] = None;
                }
            }
            if g(10) % 3 == 0 {
                p.half = 96 + (g(11) % 6) as u32;
            }
            finish(p, rest(12), &[], None)
        }
        // 10: castling-rook discovered checks: black king on the f-/d-file
        10 => {
            put(&mut p, 4, C::White, P::King)?;
            put(&mut p, 7, C::White, P::Rook)?;
            put(&mut p, 0, C::White, P::Rook)?;
            p.castle = [true, true, false, false];
            let kf = if g(0) & 1 == 0 { 5 } else { 3 };
            put(&mut p, mk(kf, 2 + (g(1) % 6) as i8)?, C::Black, P::King)?;
            p.turn = C::White;
            let keep: Vec<u8> = (1..7).chain((1..8).map(|r| mk(kf, r).unwrap())).collect();
            finish(p, rest(2), &keep, None)
        }
        // 12: back-rank battery: castled kings behind pawn shields, heavy pieces doubled on an
        //     open file against defended back-rank pieces -- forced mates of different lengths
        //     through capture sequences (tactical positions random placement never produces)
        12 => {
            let bkf = 1 + (g(0) % 6) as i8; // black king file b..g on rank 8
            put(&mut p, mk(bkf, 7)?, C::Black, P::King)?;
            for df in [-1i8, 0, 1] {
                if g(1) & (1 << (df + 1)) == 0 || df == 0 {
                    if let Some(s) = mk(bkf + df, 6) {
                        let _ = put(&mut p, s, C::Black, P::Pawn);
                    }
                } else if g(2) & (1 << (df + 1)) == 0 {
                    if let Some(s) = mk(bkf + df, 5) {
                        let _ = put(&mut p, s, C::Black, P::Pawn);
                    }
                }
            }
            let wkf = 1 + (g(3) % 6) as i8;
            put(&mut p, mk(wkf, 0)?, C::White, P::King)?;
            for df in [-1i8, 0, 1] {
                if g(4) & (1 << (df + 1)) == 0 || df == 0 {
                    if let Some(s) = mk(wkf + df, 1) {
                        let _ = put(&mut p, s, C::White, P::Pawn);
                    }
                }
            }
            // the battle file: not a king file
            let files: Vec<i8> = (0..8).filter(|f| (*f - bkf).abs() >= 2 && (*f - wkf).abs() >= 1).collect();
            if files.is_empty() {
                return None;
            }
            let bf = files[(g(5) as usize * files.len()) >> 8];
            let heavy = |x: u8| if x % 3 == 0 { P::Queen } else { P::Rook };
            // white battery on the file (ranks 1..4), black defenders on the back rank and around
            let nw = 1 + g(6) % 3;
            for i in 0..nw as i8 {
                let _ = put(&mut p, mk(bf, i + (g(7) % 2) as i8)?, C::White, heavy(g(8 + i as usize)));
            }
            let _ = put(&mut p, mk(bf, 7)?, C::Black, [P::Rook, P::Queen, P::Bishop, P::Knight][(g(11) % 4) as usize]);
            let nb = g(12) % 4;
            for i in 0..nb as usize {
                let s = mk((g(13 + i) % 8) as i8, 7 - (g(17 + i) % 3) as i8)?;
                let _ = put(&mut p, s, C::Black, [P::Rook, P::Bishop, P::Knight, P::Queen, P::Knight][(g(21 + i) % 5) as usize]);
            }
            if g(25) % 2 == 0 {
                let _ = put(&mut p, mk((g(26) % 8) as i8, 2 + (g(27) % 3) as i8)?, C::White, [P::Bishop, P::Knight][(g(28) % 2) as usize]);
            }
            p.turn = if g(29) & 1 == 0 { C::White } else { C::Black };
            p.half = (g(30) % 20) as u32;
            p.full = 20;
            // a piece that leaves the side not to move in check is removed instead of rejecting
            let mut guard = 0;
            while !p.unplayable_reasons().is_empty() && guard < 6 {
                let them = p.turn.flip();
                let k = p.king(them)?;
                let att = p.attackers(k, p.turn);
                match att.first() {
                    Some(a) if p.sq[*a as usize].map_or(false, |x| x.1 != P::King) => p.sq[*a as usize] = None,
                    _ => return None,
                }
                guard += 1;
            }
            finish(p, rest(31), &[], None)
        }
        // 11: en-passant capture that discovers check on the *enemy* king (both pawns leave a rank)
        _ => {
            let f = 1 + (g(0) % 6) as i8;
            let side = sgn(g(1));
            let kf = if side > 0 { 0.max(f - 1 - (g(2) % 2) as i8) } else { 7.min(f + 1 + (g(2) % 2) as i8) };
            let rf = if side > 0 { 7 } else { 0 };
            if mk(kf, 4) == mk(f, 4) || mk(rf, 4) == mk(f + side, 4) {
                return None;
            }
            put(&mut p, mk(kf, 4)?, C::Black, P::King)?;
            put(&mut p, mk(rf, 4)?, C::White, slider(g(3), false))?;
            put(&mut p, mk(f + side, 4)?, C::White, P::Pawn)?;
            put(&mut p, mk(f, 6)?, C::Black, P::Pawn)?;
            p.turn = C::Black;
            let keep: Vec<u8> = (0..8).map(|x| mk(x, 4).unwrap()).chain([mk(f, 5)?]).collect();
            safe_king(&mut p, C::White, g(4), &keep)?;
            finish(p, rest(5), &keep, Some(Mv { from: mk(f, 6)?, to: mk(f, 4)?, promo: None }))
        }
    }
}

// ---------------------------------------------------------------------------------------
// strategies

pub fn synth_strategy(max_pieces: usize) -> impl Strategy<Value = Synth> {
    (
        any::<u8>(),
        any::<u8>(),
        prop::collection::vec((any::<u8>(), any::<u8>()), 0..=max_pieces),
        any::<bool>(),
        prop_oneof![4 => Just(0u8), 3 => 0u8..16],
        prop_oneof![3 => Just(None), 2 => (0u8..8, 0u8..4).prop_map(Some)],
    )
        .prop_map(|(wk, bk, pieces, black_to_move, castle, ep)| Synth { wk, bk, pieces, black_to_move, castle, ep })
}

pub fn root_strategy(max_pieces: usize) -> impl Strategy<Value = Root> {
    prop_oneof![
        5 => (0u16..ROOTS.len() as u16, any::<bool>()).prop_map(|(idx, mirror)| Root::Named { idx, mirror }),
        4 => synth_strategy(max_pieces).prop_map(Root::Synth),
        4 => (0u8..MOTIFS, prop::collection::vec(any::<u8>(), 12..44), any::<bool>()).prop_map(|(kind, a, mirror)| Root::Motif { kind, a, mirror }),
    ]
}

pub fn choices_strategy(max_len: usize) -> impl Strategy<Value = Vec<(u8, u16)>> {
    let ch = (prop_oneof![5 => Just(0u8), 4 => 1u8..9], any::<u16>());
    prop_oneof![
        6 => prop::collection::vec(ch.clone(), 0..=max_len.min(24)),
        3 => prop::collection::vec(ch.clone(), 0..=max_len.min(80)),
        1 => prop::collection::vec(ch, 0..=max_len),
    ]
}

/// clocks: half-move clock with extra weight around the 100 boundary; full-move number such
/// that every visited board still prints at most four digits
pub fn clocks_strategy(max_len: usize) -> impl Strategy<Value = (u16, u16)> {
    let hi = 9999u16.saturating_sub((max_len as u16 + 1) / 2 + 1);
    (
        prop_oneof![3 => Just(0u16), 3 => 0u16..=120, 3 => 90u16..=104],
        prop_oneof![3 => 0u16..=60, 2 => 0u16..=hi, 1 => (hi.saturating_sub(40))..=hi],
    )
}

/// the same with the whole range of half-move clocks a FEN can carry (the clock keeps counting
/// past 100; storage-width boundaries 255/256 get extra weight)
pub fn clocks_strategy_wide(max_len: usize) -> impl Strategy<Value = (u16, u16)> {
    let hi = 9999u16.saturating_sub(max_len as u16 + 2);
    (clocks_strategy(max_len), prop_oneof![9 => Just(None), 1 => (250u16..=260).prop_map(Some), 1 => (0u16..=hi).prop_map(Some), 1 => ((hi - 30)..=hi).prop_map(Some)]).prop_map(|((h, f), wide)| (wide.unwrap_or(h), f))
}

pub fn play_strategy(max_len: usize, max_pieces: usize) -> impl Strategy<Value = PlayCase> {
    (root_strategy(max_pieces), clocks_strategy_wide(max_len), choices_strategy(max_len), any::<u64>())
        .prop_map(|(root, (half, full), choices, aux)| PlayCase { root, half, full, choices, aux })
}

/// Bias classes for `pick` (0 = any legal move)
pub const BIAS_NAMES: [&str; 9] = ["any", "capture", "double-step", "en-passant", "castle", "promotion", "check", "king-move", "pawn-move"];

/// Choose a move of the *reference's* sorted legal list: `bias` selects a non-empty class,
/// `idx` selects monotonically within it (so shrinking moves toward the first move).
pub fn pick(pos: &Pos, legal: &[Mv], bias: u8, idx: u16) -> Mv {
    let class: Vec<Mv> = match bias {
        0 => vec![],
        1 => legal.iter().copied().filter(|m| pos.kind(*m).capture).collect(),
        2 => legal.iter().copied().filter(|m| pos.kind(*m).double_step).collect(),
        3 => legal.iter().copied().filter(|m| pos.kind(*m).en_passant).collect(),
        4 => legal.iter().copied().filter(|m| pos.kind(*m).castle_k || pos.kind(*m).castle_q).collect(),
        5 => legal.iter().copied().filter(|m| pos.kind(*m).promotion).collect(),
        6 => legal.iter().copied().filter(|m| pos.apply(*m).in_check()).collect(),
        7 => legal.iter().copied().filter(|m| pos.kind(*m).king_move).collect(),
        _ => legal.iter().copied().filter(|m| pos.kind(*m).pawn_move).collect(),
    };
    let pool: &[Mv] = if class.is_empty() { legal } else { &class };
    pool[(idx as usize * pool.len()) >> 16]
}

/// Interesting structural features of a position (coverage classes and the non-triviality
/// rule of C01).
#[derive(Default, Clone, Debug)]
pub struct Features {
    pub in_check: bool,
    pub double_check: bool,
    pub pinned: bool,
    pub ep_capturer: bool,
    pub ep_legal: bool,
    pub ep_illegal: bool,
    pub castle_path_empty: bool,
    pub castle_legal: bool,
    pub promotion: bool,
}

pub fn features(pos: &Pos, legal: &[Mv]) -> Features {
    let mut f = Features::default();
    let us = pos.turn;
    let them = us.flip();
    let king = pos.king(us).unwrap();
    let chk = pos.attackers(king, them);
    f.in_check = !chk.is_empty();
    f.double_check = chk.len() >= 2;
    // pinned: an own piece alone between the king and an enemy slider on a line
    for (dirs, a) in [(refchess::RK, P::Rook), (refchess::BS, P::Bishop)] {
        for (df, dr) in dirs {
            let (mut cf, mut cr) = (fl(king) + df, rk(king) + dr);
            let mut own = 0;
            while let Some(t) = mk(cf, cr) {
                if let Some((c, p)) = pos.sq[t as usize] {
                    if c == us {
                        own += 1;
                        if own > 1 {
                            break;
                        }
                    } else {
                        if own == 1 && (p == a || p == P::Queen) {
                            f.pinned = true;
                        }
                        break;
                    }
                }
                cf += df;
                cr += dr;
            }
        }
    }
    if let Some(ef) = pos.ep {
        let pr = if us == C::White { 4 } else { 3 };
        for df in [-1i8, 1] {
            if let Some(n) = mk(ef as i8 + df, pr) {
                if pos.sq[n as usize] == Some((us, P::Pawn)) {
                    f.ep_capturer = true;
                }
            }
        }
        f.ep_legal = legal.iter().any(|m| pos.kind(*m).en_passant);
        f.ep_illegal = f.ep_capturer && {
            let pseudo_ep = pos.pseudo().into_iter().filter(|m| pos.kind(*m).en_passant).count();
            let legal_ep = legal.iter().filter(|m| pos.kind(**m).en_passant).count();
            pseudo_ep > legal_ep
        };
    }
    let (home, ki, qi) = if us == C::White { (0i8, 0, 1) } else { (7i8, 2, 3) };
    let empty = |fs: &[i8]| fs.iter().all(|&x| pos.sq[mk(x, home).unwrap() as usize].is_none());
    f.castle_path_empty = (pos.castle[ki] && empty(&[5, 6])) || (pos.castle[qi] && empty(&[1, 2, 3]));
    f.castle_legal = legal.iter().any(|m| pos.kind(*m).castle_k || pos.kind(*m).castle_q);
    f.promotion = legal.iter().any(|m| m.promo.is_some());
    f
}
