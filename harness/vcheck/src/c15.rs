//! C15: the bot plugin driven through its stable interface: legality gate, reported board,
//! threefold flag, proposed move.

use crate::conv::*;
use crate::fw::*;
use crate::gen::*;
use crate::obs::CountingTimeout;
use chess_api::{ChessApiRef, ChessEngine};
use chess_movegen::Board;
use proptest::prelude::*;
use refchess::{Key, Mv, Pos, P};
use serde::{Deserialize, Serialize};
use serde_json::{json, Value};
use std::collections::HashMap;
use std::path::Path;

pub const PLUGIN: &str = "/verif/target/release/libchess_bot.so";

#[derive(Clone, Debug, Serialize, Deserialize, PartialEq)]
pub enum POp {
    SetBoard(Root),
    /// set_board with the plugin's CURRENT position (re-parsed, other clocks): must reset the history too
    SetCurrent(u16),
    Legal(u8, u16),
    Illegal(u8, u8, u8),
    /// a near miss derived from the legal moves (promotion without a piece, ordinary move
    /// with a piece, castling targets without the right, en-passant square without marker)
    NearMiss(u16),
    /// a reversible manoeuvre a b a^-1 b^-1 repeated `r` times; the index selects it
    Shuffle(u8, u16),
    Board,
    Evaluate(u16),
    /// evaluate, remember the proposal, set another board, then submit the remembered move there
    EvalSetOffer(u16, Root),
}

#[derive(Clone, Debug, Serialize, Deserialize, PartialEq)]
pub struct PluginCase {
    pub ops: Vec<POp>,
}

thread_local! {
    static API: std::cell::RefCell<Option<ChessApiRef>> = const { std::cell::RefCell::new(None) };
    static INIT_COUNT: std::cell::Cell<Option<u8>> = const { std::cell::Cell::new(None) };
}

fn with_engine<T>(f: impl FnOnce(&mut ChessEngine) -> T) -> Result<T, String> {
    API.with(|a| {
        let mut a = a.borrow_mut();
        if a.is_none() {
            match ChessApiRef::load_from_file(Path::new(PLUGIN)) {
                Ok(api) => *a = Some(api),
                Err(e) => {
                    // infrastructure problem, never a verdict
                    eprintln!("cannot load plugin {PLUGIN}: {e}");
                    std::process::exit(3);
                }
            }
        }
        let mut e = a.as_ref().unwrap().new_engine();
        Ok(f(&mut e))
    })
}

/// the plugin built from the tree is there (C11's front-end stage is skipped otherwise)
pub fn plugin_available() -> bool {
    Path::new(PLUGIN).exists()
}

/// one search through the plugin's stable interface: set_board(pos), evaluate(limit expiring at
/// poll k); returns the proposed move as the host receives it
pub fn plugin_evaluate(pos: &Pos, k: u64) -> Result<Option<Mv>, String> {
    let b = to_board(pos)?;
    with_engine(|e| {
        e.set_board(b);
        let t = CountingTimeout::new(k);
        let (mv, _score) = e.evaluate(&t);
        mv.map(from_cm)
    })
}

/// several searches of one position on ONE plugin instance, without a move in between (a
/// host that asks again with a longer limit): for each limit (move, score, polls consumed,
/// did the limit expire)
pub fn plugin_session(pos: &Pos, ks: &[u64]) -> Result<Vec<(Option<Mv>, chess_engine::Score, u64, bool)>, String> {
    let b = to_board(pos)?;
    with_engine(|e| {
        e.set_board(b);
        let mut out = vec![];
        for &k in ks {
            let t = CountingTimeout::new(k);
            let (mv, score) = e.evaluate(&t);
            let polls = t.polls();
            out.push((mv.map(from_cm), score, polls, polls > k));
        }
        out
    })
}

struct Model {
    pos: Pos,
    counts: HashMap<Key, u32>,
    init: u32,
}

impl Model {
    fn set(&mut self, p: Pos) {
        self.counts.clear();
        if self.init > 0 {
            self.counts.insert(p.key(), self.init);
        }
        self.pos = p;
    }
}

fn board_matches(e: &ChessEngine, pos: &Pos, what: &str) -> Result<(), String> {
    let b = e.board();
    let want = to_board(pos)?;
    if b.to_string() != pos.fen() || b != want || b.zobrist() != want.zobrist() {
        return Err(format!("C15 {what}: plugin reports board `{b}` but the reference position is `{}`", pos.fen()));
    }
    Ok(())
}

/// play one move through the plugin and the model, checking the gate and the flag
fn play(e: &mut ChessEngine, m: &mut Model, mv: Mv, trace: &mut Vec<String>, st: &mut Stats) -> Result<bool, String> {
    let legal = m.pos.legal();
    let is_legal = legal.contains(&mv);
    let r = e.make_move(to_cm(mv));
    trace.push(format!("{mv}{}{}", if r.is_valid { "" } else { "?" }, if r.is_three_fold_draw { "#3" } else { "" }));
    let ctx = |s: String| format!("C15 after [{}] at `{}`: {s}", trace.join(" "), m.pos.fen());
    if r.is_valid != is_legal {
        return Err(ctx(format!("make_move({mv}) reports valid={} but the move is {}", r.is_valid, if is_legal { "legal" } else { "illegal" })));
    }
    if !is_legal {
        if r.is_three_fold_draw {
            return Err(ctx(format!("rejected move {mv} reported as a threefold draw")));
        }
        board_matches(e, &m.pos, "after a rejected move").map_err(ctx)?;
        st.class("illegal move offered");
        return Ok(false);
    }
    let next = m.pos.apply(mv);
    let c = m.counts.entry(next.key()).or_insert(0);
    *c += 1;
    let occ = *c;
    let want_flag = occ == 3;
    if r.is_three_fold_draw != want_flag {
        return Err(format!(
            "C15 after [{}]: position `{}` has now occurred {occ} time(s) since the board was last set (counting {} for the set position) but is_three_fold_draw = {}",
            trace.join(" "),
            next.fen(),
            m.init,
            r.is_three_fold_draw
        ));
    }
    m.pos = next;
    board_matches(e, &m.pos, "after an accepted move")?;
    if occ >= 3 {
        st.class(if occ == 3 { "third occurrence flagged" } else { "fourth or later occurrence (must stay silent)" });
    }
    Ok(want_flag)
}

/// reversible manoeuvres available now: (a, b, a^-1, b^-1) all quiet non-pawn moves
pub fn shuffles(p: &Pos) -> Vec<[Mv; 4]> {
    let mut out = vec![];
    let quiet = |q: &Pos, m: &Mv| {
        let k = q.kind(*m);
        !k.capture && !k.pawn_move && !k.castle_k && !k.castle_q
    };
    for a in p.legal().into_iter().filter(|m| quiet(p, m)) {
        let p1 = p.apply(a);
        for b in p1.legal().into_iter().filter(|m| quiet(&p1, m)).take(6) {
            let p2 = p1.apply(b);
            let ai = Mv { from: a.to, to: a.from, promo: None };
            if !p2.legal().contains(&ai) || !quiet(&p2, &ai) {
                continue;
            }
            let p3 = p2.apply(ai);
            let bi = Mv { from: b.to, to: b.from, promo: None };
            if !p3.legal().contains(&bi) || !quiet(&p3, &bi) {
                continue;
            }
            out.push([a, b, ai, bi]);
            if out.len() >= 24 {
                return out;
            }
        }
    }
    out
}

fn calibrate() -> Result<u8, String> {
    if let Some(c) = INIT_COUNT.with(|c| c.get()) {
        return Ok(c);
    }
    // set_board(start); Nf3 Nf6 Ng1 Ng8 x3: the start position recurs after plies 4, 8, 12
    let seq = ["g1f3", "g8f6", "f3g1", "f6g8"];
    let flags = with_engine(|e| {
        e.set_board(Board::standard());
        let mut flags = vec![];
        for i in 0..12 {
            let r = e.make_move(to_cm(Mv::parse(seq[i % 4]).unwrap()));
            flags.push((r.is_valid, r.is_three_fold_draw));
        }
        flags
    })?;
    if flags.iter().any(|f| !f.0) {
        return Err("C15 calibration: the plugin rejects a legal knight move from the standard position".into());
    }
    let raised: Vec<usize> = flags.iter().enumerate().filter(|(_, f)| f.1).map(|(i, _)| i + 1).collect();
    // reading A (set position is the first occurrence): start recurs 3rd time at ply 8; the
    // position after Nf3 (ply 1, 5, 9) is flagged at ply 9, etc. Reading B (counting starts with
    // the first move): positions after plies 1,5,9 -> flag at ply 9; start (4,8,12) -> ply 12.
    let init = if raised.contains(&8) {
        1
    } else if raised.contains(&12) && !raised.contains(&8) {
        0
    } else {
        return Err(format!("C15 calibration: flags raised at plies {raised:?} of the 12-ply knight shuffle fit neither reading (third occurrence of the start position at ply 8 or at ply 12)"));
    };
    INIT_COUNT.with(|c| c.set(Some(init)));
    Ok(init)
}

fn run_case(c: &PluginCase, st: &mut Stats) -> Result<(), String> {
    let init = calibrate()?;
    let res = with_engine(|e| -> Result<(), String> {
        let mut m = Model { pos: Pos::start(), counts: HashMap::new(), init: init as u32 };
        // a fresh plugin engine holds the standard position with an empty table; the model's
        // "set" state for it follows the calibrated reading only after an explicit set_board
        let mut trace: Vec<String> = vec![];
        let mut flagged = false;
        let mut legal_played = 0;
        let mut nt = false;
        let mut explicit_set = false;
        for op in &c.ops {
            match op {
                POp::SetBoard(r) => {
                    let Some(p) = build_root(r) else { continue };
                    e.set_board(to_board(&p)?);
                    m.set(p);
                    explicit_set = true;
                    trace.push("set_board".into());
                    board_matches(e, &m.pos, "after set_board")?;
                    legal_played = 0;
                }
                POp::SetCurrent(clk) => {
                    let mut p = m.pos.clone();
                    if p.ep.is_none() {
                        p.half = (*clk % 90) as u32;
                    }
                    p.full = (*clk % 4000) as u32;
                    e.set_board(to_board(&p)?);
                    m.set(p);
                    explicit_set = true;
                    trace.push("set_board(current position)".into());
                    board_matches(e, &m.pos, "after set_board(current)")?;
                    st.class("set_board with the current position");
                }
                POp::Legal(bias, idx) => {
                    if !explicit_set {
                        // fresh engine: treat as set_board(standard) for a single, well-defined reading
                        e.set_board(Board::standard());
                        m.set(Pos::start());
                        explicit_set = true;
                    }
                    let l = m.pos.legal();
                    if l.is_empty() {
                        continue;
                    }
                    let mv = pick(&m.pos, &l, *bias, *idx);
                    flagged |= play(e, &mut m, mv, &mut trace, st)?;
                    legal_played += 1;
                }
                POp::Illegal(from, to, promo) => {
                    if !explicit_set {
                        e.set_board(Board::standard());
                        m.set(Pos::start());
                        explicit_set = true;
                    }
                    let mv = Mv { from: from % 64, to: to % 64, promo: [None, Some(P::Queen), Some(P::Knight), Some(P::Rook), Some(P::Bishop)][(*promo % 5) as usize] };
                    let was_legal = m.pos.legal().contains(&mv);
                    flagged |= play(e, &mut m, mv, &mut trace, st)?;
                    if !was_legal && legal_played > 0 {
                        nt = true;
                    }
                }
                POp::NearMiss(idx) => {
                    if !explicit_set {
                        e.set_board(Board::standard());
                        m.set(Pos::start());
                        explicit_set = true;
                    }
                    let l = m.pos.legal();
                    let near = crate::play::illegal_triples(&m.pos, &l, &mut Expand(*idx as u64), 0);
                    if near.is_empty() {
                        continue;
                    }
                    let mv = near[(*idx as usize * near.len()) >> 16];
                    flagged |= play(e, &mut m, mv, &mut trace, st)?;
                    if legal_played > 0 {
                        nt = true;
                    }
                    st.class("near-miss move offered");
                }
                POp::Shuffle(r, sel) => {
                    if !explicit_set {
                        e.set_board(Board::standard());
                        m.set(Pos::start());
                        explicit_set = true;
                    }
                    let sh = shuffles(&m.pos);
                    if sh.is_empty() {
                        continue;
                    }
                    let cyc = sh[(*sel as usize * sh.len()) >> 16];
                    for _ in 0..(*r % 6) {
                        for mv in cyc {
                            flagged |= play(e, &mut m, mv, &mut trace, st)?;
                            legal_played += 1;
                        }
                    }
                }
                POp::EvalSetOffer(k, r) => {
                    let t = CountingTimeout::new(*k as u64);
                    let (mv, _score) = e.evaluate(&t);
                    let Some(mv) = mv else { continue };
                    let mv = from_cm(mv);
                    if !m.pos.legal().contains(&mv) {
                        return Err(format!("C15 after [{}]: evaluate proposes {mv}, which is not legal at `{}`", trace.join(" "), m.pos.fen()));
                    }
                    let Some(p) = build_root(r) else { continue };
                    e.set_board(to_board(&p)?);
                    m.set(p);
                    explicit_set = true;
                    trace.push(format!("evaluate->{mv} set_board"));
                    flagged |= play(e, &mut m, mv, &mut trace, st)?;
                    st.class("proposal of an earlier position offered after set_board");
                }
                POp::Board => board_matches(e, &m.pos, "board()")?,
                POp::Evaluate(k) => {
                    let t = CountingTimeout::new(*k as u64);
                    let (mv, _score) = e.evaluate(&t);
                    if let Some(mv) = mv {
                        let mv = from_cm(mv);
                        if !m.pos.legal().contains(&mv) {
                            return Err(format!("C15 after [{}]: evaluate proposes {mv}, which is not legal at `{}`", trace.join(" "), m.pos.fen()));
                        }
                    }
                    if m.pos.legal().is_empty() {
                        st.class("evaluate on a finished game");
                    }
                    board_matches(e, &m.pos, "after evaluate")?;
                    st.class("evaluate called");
                }
            }
        }
        st.eval(1);
        if m.counts.values().any(|&c| c >= 3) || flagged {
            nt = true;
            st.class("history with a position occurring >= 3 times");
        }
        if nt {
            st.nontrivial(digest(&trace));
            if st.want_sample() {
                st.sample(json!({"trace": trace.join(" "), "final": m.pos.fen(), "initial_count_reading": init}));
            }
        }
        Ok(())
    })?;
    res
}

/// directed: > 255 repetitions (the table's counter must not wrap into a second "third occurrence")
fn long_shuffle(plies: usize) -> Result<(), String> {
    let init = calibrate()?;
    with_engine(|e| -> Result<(), String> {
        e.set_board(Board::standard());
        let mut m = Model { pos: Pos::start(), counts: HashMap::new(), init: init as u32 };
        m.set(Pos::start());
        let seq = ["g1f3", "g8f6", "f3g1", "f6g8"];
        let mut trace = vec![];
        let mut st = Stats::new();
        for i in 0..plies {
            if trace.len() > 12 {
                trace.clear();
                trace.push(format!("...{i} plies of the knight shuffle"));
            }
            play(e, &mut m, Mv::parse(seq[i % 4]).unwrap(), &mut trace, &mut st)?;
        }
        Ok(())
    })?
}

/// directed: a long history of mostly distinct positions (quiet moves only, chosen by a seeded
/// generator, so that nothing is captured and the game goes on), then two rounds of a
/// reversible manoeuvre from the position reached: the flag is due exactly where the model's
/// occurrence count reaches three, however many positions the history holds
fn long_walk(seed: u64, plies: usize) -> Result<(), String> {
    let init = calibrate()?;
    with_engine(|e| -> Result<(), String> {
        let start = Pos::from_fen("r3k2r/1q6/8/8/8/8/6Q1/R3K2R w - - 0 1").ok_or("walk root")?;
        e.set_board(to_board(&start)?);
        let mut m = Model { pos: start.clone(), counts: HashMap::new(), init: init as u32 };
        m.set(start);
        let mut g = Expand(seed ^ 0x0c15);
        let mut trace = vec![];
        let mut st = Stats::new();
        let mut distinct = std::collections::HashSet::new();
        for i in 0..plies {
            if trace.len() > 10 {
                trace.clear();
                trace.push(format!("...{i} plies of a quiet walk ({} distinct positions)", distinct.len()));
            }
            let legal = m.pos.legal();
            // quiet, non-pawn, non-castling moves that keep the game running and the side that
            // moved out of danger of an immediate capture race: any such move will do
            let quiet: Vec<Mv> = legal
                .iter()
                .copied()
                .filter(|mv| {
                    let k = m.pos.kind(*mv);
                    if k.capture || k.pawn_move || k.castle_k || k.castle_q {
                        return false;
                    }
                    let n = m.pos.apply(*mv);
                    let nl = n.legal();
                    !nl.is_empty() && !nl.iter().any(|r| n.kind(*r).capture)
                })
                .collect();
            let pool = if quiet.is_empty() { legal.clone() } else { quiet };
            if pool.is_empty() {
                break;
            }
            let mv = pool[g.below(pool.len() as u64) as usize];
            play(e, &mut m, mv, &mut trace, &mut st)?;
            distinct.insert(m.pos.key());
            // at about every other position: two rounds of a reversible manoeuvre, i.e. the second
            // and third occurrence of the position just reached, with 700+ other positions in the
            // history by the end (an implementation that forgets old or rare positions is wrong
            // exactly when forgetting falls between two occurrences)
            if g.below(2) == 0 {
                if let Some(cyc) = shuffles(&m.pos).first().copied() {
                    for _ in 0..2 {
                        for mv in cyc {
                            play(e, &mut m, mv, &mut trace, &mut st)?;
                            distinct.insert(m.pos.key());
                        }
                    }
                }
            }
        }
        // the position reached has been seen (most probably) once: repeat it twice more
        let sh = shuffles(&m.pos);
        if let Some(cyc) = sh.first() {
            for _ in 0..3 {
                for mv in cyc {
                    play(e, &mut m, *mv, &mut trace, &mut st)?;
                }
            }
        }
        if std::env::var("VERIF_DEBUG_WALK").is_ok() {
            eprintln!("long_walk: {} distinct positions, final `{}`, cycle found: {}", distinct.len(), m.pos.fen(), sh.first().is_some());
        }
        Ok(())
    })?
}

fn strategy() -> impl Strategy<Value = PluginCase> {
    let op = prop_oneof![
        1 => root_strategy(20).prop_map(POp::SetBoard),
        1 => any::<u16>().prop_map(POp::SetCurrent),
        8 => (prop_oneof![5 => Just(0u8), 3 => 1u8..9], any::<u16>()).prop_map(|(b, i)| POp::Legal(b, i)),
        2 => (any::<u8>(), any::<u8>(), any::<u8>()).prop_map(|(a, b, c)| POp::Illegal(a, b, c)),
        3 => any::<u16>().prop_map(POp::NearMiss),
        4 => (1u8..6, any::<u16>()).prop_map(|(r, s)| POp::Shuffle(r, s)),
        1 => Just(POp::Board),
        1 => prop_oneof![Just(0u16), 1u16..200, 200u16..3000].prop_map(POp::Evaluate),
        1 => (20u16..400, root_strategy(20)).prop_map(|(k, r)| POp::EvalSetOffer(k, r)),
    ];
    prop::collection::vec(op, 1..30).prop_map(|ops| PluginCase { ops })
}

fn worker(ctx: &WorkerCtx) -> Result<(), Fail> {
    if !Path::new(PLUGIN).exists() {
        // infrastructure problem, not a verdict: make the worker fail in a way the driver reports as inconclusive
        eprintln!("plugin {PLUGIN} not built");
        std::process::exit(3);
    }
    if ctx.idx == 0 {
        let plies = ctx.tier.pick(1100, 4200);
        guarded(|| long_shuffle(plies)).unwrap_or_else(Err).map_err(|d| Fail { case: json!({"long_shuffle": plies}), detail: d })?;
        let mut st = ctx.stats.borrow_mut();
        st.eval(1);
        st.class("directed: knight shuffle with > 255 repetitions");
        drop(st);
        for w in 0..ctx.tier.pick(2u64, 12) {
            let plies = ctx.tier.pick(700, 1500);
            let seed = ctx.wseed(1500 + w);
            guarded(|| long_walk(seed, plies)).unwrap_or_else(Err).map_err(|d| Fail { case: json!({"long_walk": [seed, plies]}), detail: d })?;
            let mut st = ctx.stats.borrow_mut();
            st.eval(1);
            st.class("directed: quiet walk over hundreds of distinct positions, then a repetition of the position reached");
        }
        let mut st = ctx.stats.borrow_mut();
        st.nontrivial(digest(&plies));
    }
    if ctx.idx == 1 % ctx.n {
        let mut st = ctx.stats.borrow_mut();
        host_stage(&mut st, ctx.tier).map_err(|d| Fail { case: json!({"host_stage": true}), detail: d })?;
    }
    run_proptest(ctx, 15, ctx.share(ctx.tier.pick(100_000, 1_500_000)), strategy(), |c| serde_json::to_value(c).unwrap(), run_case)
}

/// The referee loop of `chess-cli bot-fight` is an anchor of the property: it keeps two plugin
/// instances in step through make_move and reads flags, boards and proposals from them. Two
/// copies of the plugin built from the tree play a few games against each other under the
/// real host with the engine's own wall-clock limit (1 ms, 3 ms and 0 s per move). The only
/// verdict is a panic / abort of the host process; slowness and other exit codes are none.
pub fn host_stage(st: &mut Stats, tier: Tier) -> Result<(), String> {
    use std::process::{Command, Stdio};
    let bin = std::env::var("VERIF_CHESS_CLI").unwrap_or_else(|_| "/verif/target/release/chess-cli".to_string());
    if !Path::new(&bin).exists() {
        st.class("host stage skipped: chess-cli binary not built");
        return Ok(());
    }
    for (games, tc) in [(tier.pick(1, 3), "1ms"), (1, "3ms"), (1, "0s")] {
        let mut ch = match Command::new(&bin)
            .args(["bot-fight", PLUGIN, PLUGIN, "-g", &games.to_string(), "-t", tc, "--thread-count", "2"])
            .env("RUST_BACKTRACE", "0")
            .stdin(Stdio::null())
            .stdout(Stdio::null())
            .stderr(Stdio::piped())
            .spawn()
        {
            Ok(c) => c,
            Err(_) => {
                st.class("host stage: could not start the binary (no verdict)");
                return Ok(());
            }
        };
        let mut err = ch.stderr.take().expect("piped");
        let reader = std::thread::spawn(move || {
            use std::io::Read;
            let mut s = String::new();
            let _ = err.read_to_string(&mut s);
            s
        });
        let t0 = std::time::Instant::now();
        let status = loop {
            match ch.try_wait() {
                Ok(Some(s)) => break Some(s),
                Ok(None) if t0.elapsed() > std::time::Duration::from_secs(120) => {
                    let _ = ch.kill();
                    let _ = ch.wait();
                    break None;
                }
                Ok(None) => std::thread::sleep(std::time::Duration::from_millis(20)),
                Err(_) => break None,
            }
        };
        let text = reader.join().unwrap_or_default();
        match status {
            None => st.class("host stage: games did not finish in 120 s (no verdict)"),
            Some(s) => {
                use std::os::unix::process::ExitStatusExt;
                let panicked = text.contains("panicked at");
                if (s.code() == Some(101) && panicked) || s.signal().is_some() {
                    let line = text.lines().find(|l| l.contains("panicked at")).unwrap_or("").to_string();
                    let after: String = text.lines().skip_while(|l| !l.contains("panicked at")).skip(1).take(3).collect::<Vec<_>>().join(" | ");
                    return Err(format!("C15 chess-cli bot-fight between two copies of the plugin ({games} game(s) per pairing at {tc} per move) ends in {s:?}: {line} | {after}"));
                }
                st.class(if s.success() { "host stage: plugin-vs-plugin games refereed to the end" } else { "host stage: host exited with an error code, no panic (no verdict)" });
            }
        }
        st.eval(1);
    }
    Ok(())
}

fn replay(v: &Value) -> Result<(), String> {
    if v.get("host_stage").is_some() {
        return host_stage(&mut Stats::new(), Tier::Quick);
    }
    if let Some(a) = v.get("long_walk").and_then(|x| x.as_array()) {
        return long_walk(a[0].as_u64().unwrap_or(0), a[1].as_u64().unwrap_or(700) as usize);
    }
    if let Some(p) = v.get("long_shuffle") {
        return long_shuffle(p.as_u64().unwrap_or(1100) as usize);
    }
    let c: PluginCase = serde_json::from_value(v.clone()).map_err(|e| e.to_string())?;
    run_case(&c, &mut Stats::new())
}

pub const C15: CheckDef = CheckDef {
    id: "C15",
    worker,
    replay,
    rule: "system under test: libchess_bot.so built from the working tree, loaded through chess_api::ChessApiRef::load_from_file, a fresh new_engine() per case, driven only through chess_api::ChessEngine. case = op list over {set_board(generated position), set_board(the current position again, other clocks), legal move (biased classes), arbitrary (from,to,promotion) triple, near miss of a legal move (promotion without piece, ordinary move with a piece, castling target without the right, en-passant square without marker), reversible manoeuvre a b a^-1 b^-1 repeated r <= 5 times, board(), evaluate(limit k)}; a directed family repeats a knight shuffle for > 1000 plies (> 255 repetitions), another walks quietly over 700+ mostly distinct positions and then repeats the position reached; a host stage lets two copies of the plugin play under the real `chess-cli bot-fight` referee at 1 ms, 3 ms and 0 s per move (verdict: host panic / abort only). Oracle: reference position + HashMap<position key, count> cleared by set_board: make_move valid iff reference-legal; invalid leaves board() unchanged and raises no flag; valid makes board() equal the reference successor (text, ==, hash) and raises the flag iff the new key's count becomes exactly 3; evaluate returns None or a reference-legal move. Whether the set position itself counts as the first occurrence is calibrated at the start of every run with a 12-ply knight shuffle (flag at ply 8 -> counts; at ply 12 -> does not) and the reading in force is recorded in samples; a plugin that fits neither reading is a violation. Non-trivial = some key reaches count >= 3, or an illegal move is offered after >= 1 legal move; distinct by move trace.",
    assumptions: &[
        "position identity = placement, side to move, castling rights, en-passant file (as the property states)",
        "the occurrence-counting reading is calibrated, not assumed (DESIGN.md C15)",
        "oracle: refchess",
    ],
    exhaustive: |_| false,
    uses_reference: true,
    workers: |_| 0,
    known_signature: no_signature,
    profile: "release",
};
