//! Conversion boundary between the reference model and the implementation's types.
//! The only shared vocabulary is the square numbering a1 = 0 .. h8 = 63.

use chess_bitboard as bb;
use chess_movegen::{Board, ChessMove};
use refchess::{Mv, Pos, C, P};

pub fn sq(s: u8) -> bb::Pos {
    bb::Pos::from_u8(s).expect("square < 64")
}

pub fn promo_to_bb(p: P) -> bb::PromotionPiece {
    match p {
        P::Knight => bb::PromotionPiece::Knight,
        P::Bishop => bb::PromotionPiece::Bishop,
        P::Rook => bb::PromotionPiece::Rook,
        P::Queen => bb::PromotionPiece::Queen,
        _ => panic!("not a promotion piece"),
    }
}

pub fn promo_from_bb(p: bb::PromotionPiece) -> P {
    match p {
        bb::PromotionPiece::Knight => P::Knight,
        bb::PromotionPiece::Bishop => P::Bishop,
        bb::PromotionPiece::Rook => P::Rook,
        bb::PromotionPiece::Queen => P::Queen,
    }
}

pub fn piece_from_bb(p: bb::Piece) -> P {
    match p {
        bb::Piece::Pawn => P::Pawn,
        bb::Piece::Knight => P::Knight,
        bb::Piece::Bishop => P::Bishop,
        bb::Piece::Rook => P::Rook,
        bb::Piece::Queen => P::Queen,
        bb::Piece::King => P::King,
    }
}

pub fn piece_to_bb(p: P) -> bb::Piece {
    match p {
        P::Pawn => bb::Piece::Pawn,
        P::Knight => bb::Piece::Knight,
        P::Bishop => bb::Piece::Bishop,
        P::Rook => bb::Piece::Rook,
        P::Queen => bb::Piece::Queen,
        P::King => bb::Piece::King,
    }
}

pub fn color_from_bb(c: bb::Color) -> C {
    match c {
        bb::Color::White => C::White,
        bb::Color::Black => C::Black,
    }
}

pub fn color_to_bb(c: C) -> bb::Color {
    match c {
        C::White => bb::Color::White,
        C::Black => bb::Color::Black,
    }
}

pub fn to_cm(m: Mv) -> ChessMove {
    ChessMove { source: sq(m.from), dest: sq(m.to), piece: m.promo.map(promo_to_bb) }
}

pub fn from_cm(m: ChessMove) -> Mv {
    Mv { from: m.source as u8, to: m.dest as u8, promo: m.piece.map(promo_from_bb) }
}

/// the 64 squares as the implementation reports them
pub fn squares(b: &Board) -> [Option<(C, P)>; 64] {
    let mut out = [None; 64];
    for s in 0..64u8 {
        out[s as usize] = b.raw().get(sq(s)).map(|(c, p)| (color_from_bb(c), piece_from_bb(p)));
    }
    out
}

/// Build the implementation's board for a reference position through the FEN parser
/// (the only public constructor that can grant castling rights).
pub fn to_board(p: &Pos) -> Result<Board, String> {
    let fen = p.fen();
    fen.parse::<Board>().map_err(|e| format!("parser rejects canonical FEN of a valid position `{fen}`: {e:?}"))
}

/// Sorted legal moves as the implementation generates them.
pub fn gen_moves(b: &Board) -> Vec<Mv> {
    let mut v: Vec<Mv> = b.legals().map(from_cm).collect();
    v.sort();
    v
}

pub fn std_hash(b: &Board) -> u64 {
    use std::hash::{Hash, Hasher};
    let mut h = std::collections::hash_map::DefaultHasher::new();
    b.hash(&mut h);
    h.finish()
}

pub fn fmt_moves(v: &[Mv]) -> String {
    v.iter().map(|m| m.to_string()).collect::<Vec<_>>().join(" ")
}
