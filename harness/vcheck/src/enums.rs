//! Finite-domain checks decided by complete enumeration plus generated cases:
//! C08 (slider lookups), C09 (geometry tables), C14 (score order), C16 (ABI encodings),
//! C17 (opening book).

use crate::conv::*;
use crate::fw::*;
use chess_bitboard as bb;
use chess_bitboard::BitBoard;
use refchess::{fl, mk, rk};
use serde_json::{json, Value};

fn bbsq(s: u8) -> bb::Pos {
    bb::Pos::from_u8(s).unwrap()
}

fn fail(case: Value, detail: String) -> Fail {
    Fail { case, detail }
}

// ---------------------------------------------------------------------------------------
// C08

const ROOK_DIRS: [(i8, i8); 4] = [(1, 0), (0, 1), (-1, 0), (0, -1)];
const BISHOP_DIRS: [(i8, i8); 4] = [(1, 1), (-1, 1), (-1, -1), (1, -1)];

/// coordinate-stepping ray caster: up to and including the first occupied square
pub fn raycast(s: u8, occ: u64, dirs: &[(i8, i8); 4]) -> u64 {
    let mut out = 0u64;
    for &(df, dr) in dirs {
        let (mut f, mut r) = (fl(s) + df, rk(s) + dr);
        while let Some(t) = mk(f, r) {
            out |= 1u64 << t;
            if occ & (1u64 << t) != 0 {
                break;
            }
            f += df;
            r += dr;
        }
    }
    out
}

fn slider_lookup(rook: bool, s: u8, occ: u64) -> u64 {
    if rook {
        chess_lookup::rook_moves(bbsq(s), BitBoard::from_u64(occ)).to_u64()
    } else {
        chess_lookup::bishop_moves(bbsq(s), BitBoard::from_u64(occ)).to_u64()
    }
}

fn c08_one(rook: bool, s: u8, occ: u64) -> Result<(), String> {
    let want = raycast(s, occ, if rook { &ROOK_DIRS } else { &BISHOP_DIRS });
    let got = guarded(|| slider_lookup(rook, s, occ))?;
    if got != want {
        return Err(format!(
            "C08 {}_moves({}, occupancy {occ:#018x}) = {got:#018x}, ray casting gives {want:#018x}",
            if rook { "rook" } else { "bishop" },
            refchess::sq_name(s)
        ));
    }
    Ok(())
}

fn c08_case(rook: bool, s: u8, occ: u64) -> Value {
    json!({"slider": if rook { "rook" } else { "bishop" }, "sq": s, "occ": format!("{occ:#x}")})
}

/// minimise a failing occupancy by clearing bits while it still fails
fn c08_shrink(rook: bool, s: u8, mut occ: u64) -> u64 {
    for b in 0..64 {
        let t = occ & !(1u64 << b);
        if t != occ && c08_one(rook, s, t).is_err() {
            occ = t;
        }
    }
    occ
}

fn c08_worker(ctx: &WorkerCtx) -> Result<(), Fail> {
    let mut st = ctx.stats.borrow_mut();
    let mut noise = Expand(ctx.wseed(8));
    for s in 0..64u8 {
        if !ctx.mine(s as u64) {
            continue;
        }
        for rook in [true, false] {
            let rays = raycast(s, 0, if rook { &ROOK_DIRS } else { &BISHOP_DIRS });
            ctx.about_to_run(&json!({"slider": if rook { "rook" } else { "bishop" }, "sq": s, "enumerate": true}));
            // all subsets of the square's own ray squares (carry-rippler)
            let mut sub = 0u64;
            loop {
                // the bare subset, the subset with the square itself occupied, and the subset
                // with generated off-ray noise: the result must not depend on the latter two
                let off = noise.next() & !rays;
                for occ in [sub, sub | (1u64 << s), sub | off] {
                    if let Err(d) = c08_one(rook, s, occ) {
                        let m = c08_shrink(rook, s, occ);
                        let d2 = c08_one(rook, s, m).err().unwrap_or(d);
                        return Err(fail(c08_case(rook, s, m), d2));
                    }
                }
                st.eval(3);
                if sub != 0 {
                    st.nontrivial(mix(sub, (s as u64) << 1 | rook as u64));
                    if st.want_sample() {
                        st.sample(c08_case(rook, s, sub | off));
                    }
                }
                sub = sub.wrapping_sub(rays) & rays;
                if sub == 0 {
                    break;
                }
            }
            st.class(if rook { "rook squares enumerated completely" } else { "bishop squares enumerated completely" });
        }
    }
    // generated full 64-bit occupancies (independence from off-ray squares, sampled)
    let n = ctx.share(ctx.tier.pick(40_000_000, 200_000_000));
    let mut g = Expand(ctx.wseed(88));
    for i in 0..n {
        let s = (g.next() % 64) as u8;
        // vary the density: AND / OR of several words
        let occ = match i % 4 {
            0 => g.next(),
            1 => g.next() & g.next(),
            2 => g.next() & g.next() & g.next(),
            _ => g.next() | g.next(),
        };
        for rook in [true, false] {
            if let Err(d) = c08_one(rook, s, occ) {
                let m = c08_shrink(rook, s, occ);
                let d2 = c08_one(rook, s, m).err().unwrap_or(d);
                return Err(fail(c08_case(rook, s, m), d2));
            }
        }
        st.eval(2);
    }
    st.class_n("generated full occupancies", n * 2);
    // the generator's own output (bishop table in both tiers, rook table in the thorough tier:
    // its magic search takes about a minute)
    if ctx.idx == 0 {
        for rook in [false, true] {
            if rook && ctx.tier != Tier::Thorough && std::env::var("VERIF_C08_ROOK_GEN").is_err() {
                continue;
            }
            let t0 = std::time::Instant::now();
            let k = c08_generated_table(rook).map_err(|d| fail(json!({"generated_table": if rook { "rook" } else { "bishop" }}), d))?;
            st.eval(k);
            st.class_n(if rook { "lookups through a freshly generated rook table" } else { "lookups through a freshly generated bishop table" }, k);
            eprintln!("generated {} table checked in {:?}", if rook { "rook" } else { "bishop" }, t0.elapsed());
        }
    }
    Ok(())
}

/// The table generator is an anchor of the property: whatever table it produces (its magic
/// factors are found by random search, so every run gives another one) must answer every
/// (square, ray-subset) lookup like the ray caster, through the index computation the lookup
/// crate uses, and every index must lie inside the generated data.
fn c08_generated_table(rook: bool) -> Result<u64, String> {
    let t = with_stderr_silenced(|| guarded(|| if rook { chess_lookup_generator::rook_moves() } else { chess_lookup_generator::bishop_moves() }));
    let t = t.map_err(|p| format!("C08 table generator ({}) panics: {p}", if rook { "rook" } else { "bishop" }))?;
    let kind = if rook { "rook" } else { "bishop" };
    if t.entries.len() != 64 {
        return Err(format!("C08 generated {kind} table has {} entries", t.entries.len()));
    }
    let mut n = 0u64;
    let mut noise = Expand(0x0808);
    for s in 0..64u8 {
        let e = &t.entries[s as usize];
        let dirs = if rook { &ROOK_DIRS } else { &BISHOP_DIRS };
        let rays = raycast(s, 0, dirs);
        let mut sub = 0u64;
        loop {
            let off = noise.next() & !rays;
            for occ in [sub, sub | (1u64 << s), sub | off] {
                let blockers = e.mask.to_u64() & occ;
                let index = (blockers.wrapping_mul(e.factor) >> e.shift).wrapping_add(e.offset as u64) as usize;
                if index >= t.data.len() {
                    return Err(format!("C08 freshly generated {kind} table: index {index} for {} with occupancy {occ:#018x} is outside the generated data ({} slots)", refchess::sq_name(s), t.data.len()));
                }
                let got = t.data[index].to_u64();
                let want = raycast(s, occ, dirs);
                if got != want {
                    return Err(format!("C08 freshly generated {kind} table answers {got:#018x} for {} with occupancy {occ:#018x}, ray casting gives {want:#018x} (a regenerated lookup table would be wrong)", refchess::sq_name(s)));
                }
                n += 1;
            }
            sub = sub.wrapping_sub(rays) & rays;
            if sub == 0 {
                break;
            }
        }
    }
    Ok(n)
}

fn c08_replay(v: &Value) -> Result<(), String> {
    if let Some(k) = v.get("generated_table").and_then(|x| x.as_str()) {
        return c08_generated_table(k == "rook").map(|_| ());
    }
    let rook = v["slider"].as_str() == Some("rook");
    let s = v["sq"].as_u64().ok_or("sq")? as u8;
    if v.get("enumerate").is_some() {
        // the whole ray-subset enumeration of that square (recorded before it started)
        let rays = raycast(s, 0, if rook { &ROOK_DIRS } else { &BISHOP_DIRS });
        let mut sub = 0u64;
        loop {
            c08_one(rook, s, sub)?;
            c08_one(rook, s, sub | (1u64 << s))?;
            sub = sub.wrapping_sub(rays) & rays;
            if sub == 0 {
                return Ok(());
            }
        }
    }
    let occ = u64::from_str_radix(v["occ"].as_str().ok_or("occ")?.trim_start_matches("0x"), 16).map_err(|e| e.to_string())?;
    c08_one(rook, s, occ)
}

pub const C08: CheckDef = CheckDef {
    id: "C08",
    worker: c08_worker,
    replay: c08_replay,
    rule: "for each of 64 squares and both slider kinds, ALL subsets of the square's own ray squares (carry-rippler; 2^k subsets, k <= 14 rook / 13 bishop; 1,119,744 (square,kind,subset) triples), each evaluated bare, with the square itself occupied and with generated off-ray noise, against a coordinate-stepping ray caster; plus generated full 64-bit occupancies of varying density. Non-trivial = subset with >= 1 blocker on the rays; distinct by (square, kind, subset). exhaustive refers to the ray-subset space; independence from off-ray squares is sampled. Generator stage: the table generator is run (bishop table in both tiers, rook table in thorough) and the same enumeration is repeated through the freshly generated masks, factors, shifts, offsets and data, with the index bound checked.",
    assumptions: &["oracle: coordinate-stepping ray caster in the harness (no tables)", "'index in range' is decided by re-running the enumeration in the checked profile (debug_assert + checked indexing trap there); in release an out-of-range index is observable only as a wrong answer, a crash or nothing"],
    exhaustive: |_| true,
    uses_reference: false,
    workers: |_| 0,
    known_signature: no_signature,
    profile: "release",
};

// ---------------------------------------------------------------------------------------
// C09

fn set_of(pred: impl Fn(u8) -> bool) -> u64 {
    (0..64u8).filter(|&t| pred(t)).fold(0u64, |a, t| a | 1u64 << t)
}

fn aligned(a: u8, b: u8) -> bool {
    a != b && (fl(a) == fl(b) || rk(a) == rk(b) || (fl(a) - fl(b)).abs() == (rk(a) - rk(b)).abs())
}

fn def_between(a: u8, b: u8) -> u64 {
    if !aligned(a, b) {
        return 0;
    }
    let (df, dr) = ((fl(b) - fl(a)).signum(), (rk(b) - rk(a)).signum());
    let mut out = 0u64;
    let (mut f, mut r) = (fl(a) + df, rk(a) + dr);
    while (f, r) != (fl(b), rk(b)) {
        out |= 1u64 << mk(f, r).unwrap();
        f += df;
        r += dr;
    }
    out
}

fn def_line(a: u8, b: u8) -> u64 {
    if !aligned(a, b) {
        return 0;
    }
    let (df, dr) = ((fl(b) - fl(a)).signum(), (rk(b) - rk(a)).signum());
    // every square p with (p - a) parallel to (df, dr)
    set_of(|p| {
        let (pf, pr) = (fl(p) - fl(a), rk(p) - rk(a));
        // cross product zero and on the same line through a
        pf * dr == pr * df
    })
}

fn c09_square(s: u8) -> Result<(), String> {
    let p = bbsq(s);
    let nm = refchess::sq_name(s);
    let eq = |what: &str, got: u64, want: u64| -> Result<(), String> {
        if got != want {
            Err(format!("C09 {what}({nm}) = {got:#018x}, definition gives {want:#018x}"))
        } else {
            Ok(())
        }
    };
    let knight = set_of(|t| {
        let (a, b) = ((fl(t) - fl(s)).abs(), (rk(t) - rk(s)).abs());
        (a == 1 && b == 2) || (a == 2 && b == 1)
    });
    eq("knight_moves", chess_lookup::knight_moves(p).to_u64(), knight)?;
    let king = set_of(|t| t != s && (fl(t) - fl(s)).abs() <= 1 && (rk(t) - rk(s)).abs() <= 1);
    eq("king_moves", chess_lookup::king_moves(p).to_u64(), king)?;
    let rook = set_of(|t| t != s && (fl(t) == fl(s) || rk(t) == rk(s)));
    eq("rook_rays", chess_lookup::rook_rays(p).to_u64(), rook)?;
    let bishop = set_of(|t| t != s && (fl(t) - fl(s)).abs() == (rk(t) - rk(s)).abs());
    eq("bishop_rays", chess_lookup::bishop_rays(p).to_u64(), bishop)?;
    // the table generator's own functions reproduce the checked-in tables
    eq("generator knight_moves", chess_lookup_generator::knight_moves(p).to_u64(), chess_lookup::knight_moves(p).to_u64())?;
    eq("generator king_moves", chess_lookup_generator::king_moves(p).to_u64(), chess_lookup::king_moves(p).to_u64())?;
    eq("generator rook_rays", chess_lookup_generator::rook_rays(p).to_u64(), chess_lookup::rook_rays(p).to_u64())?;
    eq("generator bishop_rays", chess_lookup_generator::bishop_rays(p).to_u64(), chess_lookup::bishop_rays(p).to_u64())?;
    let gen_att = chess_lookup_generator::pawn_attacks(p);
    let gen_q = chess_lookup_generator::pawn_quiets(p);
    for (ci, color) in [(0usize, bb::Color::White), (1, bb::Color::Black)] {
        let dir: i8 = if ci == 0 { 1 } else { -1 };
        let home: i8 = if ci == 0 { 1 } else { 6 };
        let caps: Vec<u8> = [-1i8, 1].iter().filter_map(|df| mk(fl(s) + df, rk(s) + dir)).collect();
        let cap_set = caps.iter().fold(0u64, |a, t| a | 1u64 << t);
        eq(&format!("pawn_attacks_moves[{color:?}]"), chess_lookup::pawn_attacks_moves(p, color).to_u64(), cap_set)?;
        eq(&format!("generator pawn_attacks[{color:?}]"), gen_att[ci].to_u64(), cap_set)?;
        let one = mk(fl(s), rk(s) + dir);
        let two = if rk(s) == home { mk(fl(s), rk(s) + 2 * dir) } else { None };
        let quiet_all = one.map_or(0, |t| 1u64 << t) | two.map_or(0, |t| 1u64 << t);
        eq(&format!("generator pawn_quiets[{color:?}]"), gen_q[ci].to_u64(), quiet_all)?;
        // all occupancies of the relevant squares (push squares and capture squares), each
        // combined with two irrelevant-occupancy patterns
        let mut rel: Vec<u8> = caps.clone();
        rel.extend(one);
        rel.extend(two);
        for bits in 0..(1u32 << rel.len()) {
            let occ_rel = rel.iter().enumerate().fold(0u64, |a, (i, t)| if bits & (1 << i) != 0 { a | 1u64 << t } else { a });
            let rel_mask = rel.iter().fold(0u64, |a, t| a | 1u64 << t);
            for noise in [0u64, !rel_mask, mix(s as u64, bits as u64) & !rel_mask] {
                let occ = occ_rel | noise | (1u64 << s);
                let o = BitBoard::from_u64(occ);
                let want_att = cap_set & occ;
                let mut want_q = 0u64;
                if let Some(t) = one {
                    if occ & (1u64 << t) == 0 {
                        want_q |= 1u64 << t;
                        if let Some(t2) = two {
                            if occ & (1u64 << t2) == 0 {
                                want_q |= 1u64 << t2;
                            }
                        }
                    }
                }
                let what = |n: &str| format!("{n}[{color:?}] with occupancy {occ:#018x}");
                eq(&what("pawn_attacks"), chess_lookup::pawn_attacks(p, color, o).to_u64(), want_att)?;
                eq(&what("pawn_quiets"), chess_lookup::pawn_quiets(p, color, o).to_u64(), want_q)?;
                eq(&what("pawn_moves"), chess_lookup::pawn_moves(p, color, o).to_u64(), want_att | want_q)?;
            }
        }
    }
    Ok(())
}

fn c09_pair(a: u8, b: u8, gen_between: &[BitBoard], gen_line: &[BitBoard]) -> Result<(), String> {
    let (pa, pb) = (bbsq(a), bbsq(b));
    let nm = format!("{},{}", refchess::sq_name(a), refchess::sq_name(b));
    let got = chess_lookup::between(pa, pb).to_u64();
    if got != def_between(a, b) {
        return Err(format!("C09 between({nm}) = {got:#018x}, definition gives {:#018x}", def_between(a, b)));
    }
    let got = chess_lookup::line(pa, pb).to_u64();
    if got != def_line(a, b) {
        return Err(format!("C09 line({nm}) = {got:#018x}, definition gives {:#018x}", def_line(a, b)));
    }
    let d = chess_lookup::distance(pa, pb);
    let want = (fl(a) - fl(b)).abs().max((rk(a) - rk(b)).abs()) as u8;
    if d != want {
        return Err(format!("C09 distance({nm}) = {d}, Chebyshev distance is {want}"));
    }
    let i = a as usize * 64 + b as usize;
    if gen_between[i].to_u64() != chess_lookup::between(pa, pb).to_u64() {
        return Err(format!("C09 generator between({nm}) differs from the checked-in table"));
    }
    if gen_line[i].to_u64() != chess_lookup::line(pa, pb).to_u64() {
        return Err(format!("C09 generator line({nm}) differs from the checked-in table"));
    }
    Ok(())
}

fn c09_constants() -> Result<(), String> {
    use chess_lookup as l;
    let file = |f: i8| set_of(|t| fl(t) == f);
    let rank = |r: i8| set_of(|t| rk(t) == r);
    let chk = |what: &str, got: u64, want: u64| -> Result<(), String> {
        if got != want {
            Err(format!("C09 constant {what} = {got:#018x}, definition gives {want:#018x}"))
        } else {
            Ok(())
        }
    };
    chk("PAWN_DOUBLE_SOURCE", l::PAWN_DOUBLE_SOURCE.to_u64(), rank(1) | rank(6))?;
    chk("PAWN_DOUBLE_DEST", l::PAWN_DOUBLE_DEST.to_u64(), rank(3) | rank(4))?;
    chk("BACKRANK_BB[White]", l::BACKRANK_BB[0].to_u64(), rank(0))?;
    chk("BACKRANK_BB[Black]", l::BACKRANK_BB[1].to_u64(), rank(7))?;
    if l::BACKRANK != [bb::Rank::_1, bb::Rank::_8] {
        return Err("C09 constant BACKRANK".into());
    }
    let sqs = |v: &[u8]| v.iter().fold(0u64, |a, t| a | 1u64 << t);
    chk("CASTLE_MOVES", l::CASTLE_MOVES.to_u64(), sqs(&[2, 4, 6, 58, 60, 62]))?;
    chk("PAWN_DOUBLE_MOVE[White]", l::PAWN_DOUBLE_MOVE[0].to_u64(), rank(1) | rank(3))?;
    chk("PAWN_DOUBLE_MOVE[Black]", l::PAWN_DOUBLE_MOVE[1].to_u64(), rank(4) | rank(6))?;
    chk("ROOK_CASTLE_QUEENSIDE", l::ROOK_CASTLE_QUEENSIDE.to_u64(), file(0) | file(3))?;
    chk("ROOK_CASTLE_KINGSIDE", l::ROOK_CASTLE_KINGSIDE.to_u64(), file(7) | file(5))?;
    for f in 0..8usize {
        let (s, e) = if f < 4 { (bb::File::A, bb::File::D) } else { (bb::File::H, bb::File::F) };
        if l::CASTLE_ROOK_START[f] != s || l::CASTLE_ROOK_END[f] != e {
            return Err(format!("C09 constant CASTLE_ROOK_START/END[{f}]"));
        }
        chk(&format!("ADJACENT_FILES[{f}]"), l::ADJACENT_FILES[f].to_u64(), set_of(|t| (fl(t) - f as i8).abs() == 1))?;
        chk(&format!("ADJACENT_RANKS[{f}]"), l::ADJACENT_RANKS[f].to_u64(), set_of(|t| (rk(t) - f as i8).abs() == 1))?;
    }
    if l::PROMOTION_RANK != [bb::Rank::_8, bb::Rank::_1] {
        return Err("C09 constant PROMOTION_RANK".into());
    }
    if l::PAWN_DOUBLE_MOVE_SOURCE_RANK != [bb::Rank::_2, bb::Rank::_7] || l::PAWN_DOUBLE_MOVE_DEST_RANK != [bb::Rank::_4, bb::Rank::_5] {
        return Err("C09 constant PAWN_DOUBLE_MOVE_SOURCE_RANK / DEST_RANK".into());
    }
    chk("KINGSIDE_CASTLE_FILES", l::KINGSIDE_CASTLE_FILES.to_u64(), file(5) | file(6))?;
    chk("QUEENSIDE_CASTLE_FILES", l::QUEENSIDE_CASTLE_FILES.to_u64(), file(1) | file(2) | file(3))?;
    chk("KINGSIDE_CASTLE_SAFE_FILES", l::KINGSIDE_CASTLE_SAFE_FILES.to_u64(), file(5) | file(6))?;
    chk("QUEENSIDE_CASTLE_SAFE_FILES", l::QUEENSIDE_CASTLE_SAFE_FILES.to_u64(), file(2) | file(3))?;
    // en-passant ranks used by the move generator (colour helpers in chess-bitboard)
    if bb::Color::White.enpassant_capture_rank() != bb::Rank::_6
        || bb::Color::Black.enpassant_capture_rank() != bb::Rank::_3
        || bb::Color::White.enpassant_pawn_rank() != bb::Rank::_5
        || bb::Color::Black.enpassant_pawn_rank() != bb::Rank::_4
    {
        return Err("C09 constant en-passant ranks".into());
    }
    Ok(())
}

fn c09_worker(ctx: &WorkerCtx) -> Result<(), Fail> {
    let mut st = ctx.stats.borrow_mut();
    if ctx.idx == 0 {
        guarded(c09_constants).unwrap_or_else(Err).map_err(|d| fail(json!({"c09": "constants"}), d))?;
        st.eval(40);
        st.class("constants");
    }
    let gen_between = chess_lookup_generator::between();
    let gen_line = chess_lookup_generator::line();
    if gen_between.len() != 4096 || gen_line.len() != 4096 {
        return Err(fail(json!({"c09": "generator-size"}), "C09 generator tables do not have 64x64 entries".into()));
    }
    for s in 0..64u8 {
        if !ctx.mine(s as u64) {
            continue;
        }
        guarded(|| c09_square(s)).unwrap_or_else(Err).map_err(|d| fail(json!({"c09": "square", "sq": s}), d))?;
        st.eval(1);
        st.nontrivial(mix(1, s as u64));
        for b in 0..64u8 {
            guarded(|| c09_pair(s, b, &gen_between, &gen_line)).unwrap_or_else(Err).map_err(|d| fail(json!({"c09": "pair", "a": s, "b": b}), d))?;
            st.eval(1);
            st.nontrivial(mix(2, s as u64 * 64 + b as u64));
            if aligned(s, b) {
                st.class("aligned pairs");
            } else {
                st.class("non-aligned pairs (between/line must be empty)");
            }
        }
        if st.want_sample() {
            st.sample(json!({"square": refchess::sq_name(s), "knight_moves": format!("{:#x}", chess_lookup::knight_moves(bbsq(s)).to_u64())}));
        }
    }
    Ok(())
}

fn c09_replay(v: &Value) -> Result<(), String> {
    match v["c09"].as_str() {
        Some("constants") => c09_constants(),
        Some("square") => c09_square(v["sq"].as_u64().ok_or("sq")? as u8),
        Some("pair") => c09_pair(v["a"].as_u64().ok_or("a")? as u8, v["b"].as_u64().ok_or("b")? as u8, &chess_lookup_generator::between(), &chess_lookup_generator::line()),
        _ => Err("unknown C09 case".into()),
    }
}

pub const C09: CheckDef = CheckDef {
    id: "C09",
    worker: c09_worker,
    replay: c09_replay,
    rule: "complete enumeration: 64 squares (knight, king, rook-ray, bishop-ray, pawn capture/push tables for both colours, with ALL occupancies of the <= 2 push and <= 2 capture squares x 3 irrelevant-occupancy patterns), 64x64 pairs (between, line, distance), every castling/promotion/double-step/adjacency constant; definitions are written with |dfile|,|drank| arithmetic only. Second oracle: the public functions of chess-lookup-generator must reproduce the checked-in tables. Non-trivial = every square and every pair (each is a distinct table entry).",
    assumptions: &["definitions written from the rules with file/rank arithmetic in harness/vcheck/src/enums.rs", "the magic-table generator (random search) is not re-run; slider tables are C08's subject"],
    exhaustive: |_| true,
    uses_reference: false,
    workers: |_| 4,
    known_signature: no_signature,
    profile: "release",
};

// ---------------------------------------------------------------------------------------
// C14

use chess_engine::Score;
use std::cmp::Ordering;

fn score_key(s: Score) -> (u8, i64) {
    match s {
        Score::Min => (0, 0),
        Score::BlackMateIn(n) => (1, n as i64),
        Score::Raw(x) => (2, x as i64),
        Score::WhiteMateIn(n) => (3, -(n as i64)),
        Score::Max => (4, 0),
    }
}

fn score_json(s: Score) -> Value {
    match s {
        Score::Min => json!("Min"),
        Score::Max => json!("Max"),
        Score::BlackMateIn(n) => json!({"BlackMateIn": n}),
        Score::WhiteMateIn(n) => json!({"WhiteMateIn": n}),
        Score::Raw(x) => json!({"Raw": x}),
    }
}

fn score_from_json(v: &Value) -> Result<Score, String> {
    if v == "Min" {
        return Ok(Score::Min);
    }
    if v == "Max" {
        return Ok(Score::Max);
    }
    if let Some(n) = v.get("BlackMateIn").and_then(|x| x.as_u64()) {
        return Ok(Score::BlackMateIn(n as u16));
    }
    if let Some(n) = v.get("WhiteMateIn").and_then(|x| x.as_u64()) {
        return Ok(Score::WhiteMateIn(n as u16));
    }
    if let Some(n) = v.get("Raw").and_then(|x| x.as_i64()) {
        return Ok(Score::Raw(n as i32));
    }
    Err(format!("bad score {v}"))
}

fn structurally_equal(a: Score, b: Score) -> bool {
    score_key(a) == score_key(b)
}

fn c14_pair(a: Score, b: Score) -> Result<(), String> {
    let want = score_key(a).cmp(&score_key(b));
    let ctx = |s: String| format!("C14 {a:+?} vs {b:+?}: {s}");
    let got = a.cmp(&b);
    if got != want {
        return Err(ctx(format!("cmp = {got:?}, game-theoretic order says {want:?}")));
    }
    if a.partial_cmp(&b) != Some(got) {
        return Err(ctx("partial_cmp disagrees with cmp".into()));
    }
    if (a == b) != (got == Ordering::Equal) || (a != b) == (got == Ordering::Equal) {
        return Err(ctx("== disagrees with cmp".into()));
    }
    if (a == b) != structurally_equal(a, b) {
        return Err(ctx("== is not structural equality".into()));
    }
    if (a < b) != (want == Ordering::Less) || (a <= b) != (want != Ordering::Greater) || (a > b) != (want == Ordering::Greater) || (a >= b) != (want != Ordering::Less) {
        return Err(ctx("comparison operators disagree with the order".into()));
    }
    if b.cmp(&a) != got.reverse() {
        return Err(ctx("antisymmetry broken: cmp(b,a) is not the reverse".into()));
    }
    let (mx, mn) = (a.max(b), a.min(b));
    let wmx = if want == Ordering::Greater { a } else { b };
    let wmn = if want == Ordering::Greater { b } else { a };
    if !structurally_equal(mx, wmx) || !structurally_equal(mn, wmn) {
        return Err(ctx(format!("max/min wrong: max={mx:+?} min={mn:+?}")));
    }
    Ok(())
}

fn c14_triple(a: Score, b: Score, c: Score) -> Result<(), String> {
    // transitivity asserted on the implementation's own comparison (a broken key cannot hide it)
    if a <= b && b <= c && !(a <= c) {
        return Err(format!("C14 transitivity broken: {a:+?} <= {b:+?} <= {c:+?} but not {a:+?} <= {c:+?}"));
    }
    if a < b && b < c && !(a < c) {
        return Err(format!("C14 strict transitivity broken: {a:+?} < {b:+?} < {c:+?}"));
    }
    // clamp agrees (only defined for lo <= hi)
    if score_key(a) <= score_key(c) {
        let got = b.clamp(a, c);
        let want = if score_key(b) < score_key(a) {
            a
        } else if score_key(b) > score_key(c) {
            c
        } else {
            b
        };
        if !structurally_equal(got, want) {
            return Err(format!("C14 clamp({b:+?}, {a:+?}, {c:+?}) = {got:+?}, expected {want:+?}"));
        }
    }
    c14_pair(a, b)?;
    c14_pair(b, c)?;
    c14_pair(a, c)
}

fn boundary_scores() -> Vec<Score> {
    let mut v = vec![Score::Min, Score::Max];
    for n in [0u16, 1, 2, 3, 255, 256, 65534, 65535] {
        v.push(Score::BlackMateIn(n));
        v.push(Score::WhiteMateIn(n));
    }
    for x in [i32::MIN, i32::MIN + 1, -65536, -1, 0, 1, 65536, i32::MAX - 1, i32::MAX] {
        v.push(Score::Raw(x));
    }
    v
}

fn score_strategy() -> impl proptest::strategy::Strategy<Value = (u8, i64)> {
    use proptest::prelude::*;
    (
        0u8..5,
        prop_oneof![
            3 => any::<i32>().prop_map(|x| x as i64),
            2 => -4i64..=4,
            2 => prop_oneof![Just(i32::MIN as i64), Just(i32::MAX as i64), Just(65535i64), Just(65534), Just(65536), Just(-65536), Just(255), Just(256)],
            1 => 0i64..=65535,
        ],
    )
}

fn mk_score(v: u8, p: i64) -> Score {
    match v {
        0 => Score::Min,
        1 => Score::BlackMateIn(p as u16),
        2 => Score::Raw(p as i32),
        3 => Score::WhiteMateIn(p as u16),
        _ => Score::Max,
    }
}

fn c14_worker(ctx: &WorkerCtx) -> Result<(), Fail> {
    let tj = |a: Score, b: Score, c: Score| json!({"a": score_json(a), "b": score_json(b), "c": score_json(c)});
    {
        let mut st = ctx.stats.borrow_mut();
        let s = boundary_scores();
        // all triples (hence all pairs) of the boundary set, split by first element
        for (i, &a) in s.iter().enumerate() {
            if !ctx.mine(i as u64) {
                continue;
            }
            for &b in &s {
                for &c in &s {
                    guarded(|| c14_triple(a, b, c)).unwrap_or_else(Err).map_err(|d| fail(tj(a, b, c), d))?;
                    st.eval(1);
                    if !structurally_equal(a, b) || !structurally_equal(b, c) {
                        st.nontrivial(digest(&(score_key(a), score_key(b), score_key(c))));
                    }
                }
            }
        }
        st.class("boundary-set triples (exhaustive)");
        // adjacency (n, n+1) for all 65535 distances of both mate variants
        for n in 0..65535u32 {
            if !ctx.mine(n as u64) {
                continue;
            }
            let n = n as u16;
            for (a, b) in [(Score::BlackMateIn(n), Score::BlackMateIn(n + 1)), (Score::WhiteMateIn(n), Score::WhiteMateIn(n + 1))] {
                guarded(|| c14_pair(a, b)).unwrap_or_else(Err).map_err(|d| fail(tj(a, b, b), d))?;
                st.eval(1);
                st.nontrivial(digest(&(score_key(a), score_key(b))));
            }
            // every mate distance against the raw extremes and the sentinels
            for other in [Score::Raw(i32::MIN), Score::Raw(i32::MAX), Score::Min, Score::Max] {
                for a in [Score::BlackMateIn(n), Score::WhiteMateIn(n)] {
                    guarded(|| c14_pair(a, other)).unwrap_or_else(Err).map_err(|d| fail(tj(a, other, other), d))?;
                    st.eval(1);
                }
            }
        }
        st.class("adjacent mate distances (all 65535, both variants)");
        st.sample(tj(Score::WhiteMateIn(1), Score::Raw(i32::MAX), Score::BlackMateIn(65535)));
    }
    use proptest::strategy::Strategy;
    let strat = (score_strategy(), score_strategy(), score_strategy()).prop_map(|(a, b, c)| (mk_score(a.0, a.1), mk_score(b.0, b.1), mk_score(c.0, c.1)));
    run_proptest(ctx, 14, ctx.share(ctx.tier.pick(4_000_000, 40_000_000)), strat, |(a, b, c)| tj(*a, *b, *c), |(a, b, c), st| {
        c14_triple(*a, *b, *c)?;
        st.eval(1);
        if !structurally_equal(*a, *b) || !structurally_equal(*b, *c) {
            st.nontrivial(digest(&(score_key(*a), score_key(*b), score_key(*c))));
        }
        Ok(())
    })
}

fn c14_replay(v: &Value) -> Result<(), String> {
    c14_triple(score_from_json(&v["a"])?, score_from_json(&v["b"])?, score_from_json(&v["c"])?)
}

pub const C14: CheckDef = CheckDef {
    id: "C14",
    worker: c14_worker,
    replay: c14_replay,
    rule: "exhaustive: all triples (hence pairs) over the boundary set S (Min, Max, both mate variants x {0,1,2,3,255,256,65534,65535}, Raw x {MIN,MIN+1,-2^16,-1,0,1,2^16,MAX-1,MAX}; 27^3 triples); adjacency (n,n+1) and comparison with the raw extremes and sentinels for ALL 65535 distances of both mate variants; plus proptest triples with edge-biased payloads. Oracle: order-embedding key written from the property text; transitivity/antisymmetry asserted on the implementation's own comparisons as well. Non-trivial = the three scores are not all equal; distinct by triple.",
    assumptions: &["the key Min<BlackMateIn(n) asc<Raw(x) asc<WhiteMateIn(n) desc<Max is the reading of 'game-theoretic preference from White's point of view' in the property"],
    exhaustive: |_| true,
    uses_reference: false,
    workers: |_| 0,
    known_signature: no_signature,
    profile: "release",
};

// ---------------------------------------------------------------------------------------
// C16

use chess_api::{EvaluatedMove, StableChessMove};
use chess_movegen::ChessMove;

fn c16_move(m: Option<ChessMove>, s: Score) -> Result<(), String> {
    if let Some(mv) = m {
        let back = ChessMove::from(StableChessMove::from(mv));
        if back != mv {
            return Err(format!("C16 StableChessMove round trip of {mv:?} gives {back:?}"));
        }
    }
    let e = EvaluatedMove::new(m, s);
    if e.chess_move() != m {
        return Err(format!("C16 EvaluatedMove::new({m:?}, {s:+?}).chess_move() = {:?}", e.chess_move()));
    }
    if !structurally_equal(e.score(), s) {
        return Err(format!("C16 EvaluatedMove::new({m:?}, {s:+?}).score() = {:+?}", e.score()));
    }
    Ok(())
}

fn c16_case(m: Option<ChessMove>, s: Score) -> Value {
    json!({"move": m.map(|m| json!({"from": m.source as u8, "to": m.dest as u8, "promo": m.piece.map(|p| p as u8)})), "score": score_json(s)})
}

fn promo_from_u8(x: u8) -> Option<bb::PromotionPiece> {
    [bb::PromotionPiece::Knight, bb::PromotionPiece::Bishop, bb::PromotionPiece::Rook, bb::PromotionPiece::Queen].into_iter().find(|p| *p as u8 == x)
}

fn c16_worker(ctx: &WorkerCtx) -> Result<(), Fail> {
    let mut st = ctx.stats.borrow_mut();
    let promos = [None, Some(bb::PromotionPiece::Knight), Some(bb::PromotionPiece::Bishop), Some(bb::PromotionPiece::Rook), Some(bb::PromotionPiece::Queen)];
    let scores = boundary_scores();
    let run = |m: Option<ChessMove>, s: Score| guarded(|| c16_move(m, s)).unwrap_or_else(Err).map_err(|d| fail(c16_case(m, s), d));
    let mut i = 0u64;
    for from in 0..64u8 {
        for to in 0..64u8 {
            for p in promos {
                i += 1;
                if !ctx.mine(i) {
                    continue;
                }
                let m = ChessMove { source: bbsq(from), dest: bbsq(to), piece: p };
                let s = scores[(i as usize) % scores.len()];
                run(Some(m), s)?;
                st.eval(1);
                st.nontrivial(mix(16, i));
            }
        }
    }
    st.class("all 20480 moves");
    if ctx.idx == 0 {
        for &s in &scores {
            run(None, s)?;
            st.eval(1);
            st.nontrivial(digest(&score_key(s)));
        }
        st.class("absent move with every boundary score");
    }
    for n in 0..=65535u32 {
        if !ctx.mine(n as u64) {
            continue;
        }
        for s in [Score::BlackMateIn(n as u16), Score::WhiteMateIn(n as u16)] {
            let m = if n % 3 == 0 { None } else { Some(ChessMove { source: bbsq((n % 64) as u8), dest: bbsq((n / 64 % 64) as u8), piece: promos[(n % 5) as usize] }) };
            run(m, s)?;
            st.eval(1);
            st.nontrivial(digest(&score_key(s)));
        }
    }
    st.class("all 2 x 65536 mate scores");
    let mut g = Expand(ctx.wseed(16));
    let n = ctx.share(ctx.tier.pick(10_000_000, 80_000_000));
    for k in 0..n {
        let x = match k % 4 {
            0 => g.next() as i32,
            1 => (g.next() % 2001) as i32 - 1000,
            2 => i32::MIN.wrapping_add((g.next() % 1000) as i32),
            _ => i32::MAX.wrapping_sub((g.next() % 1000) as i32),
        };
        let r = g.next();
        let m = if r % 7 == 0 { None } else { Some(ChessMove { source: bbsq((r >> 8) as u8 % 64), dest: bbsq((r >> 16) as u8 % 64), piece: promos[((r >> 24) % 5) as usize] }) };
        run(m, Score::Raw(x))?;
        st.eval(1);
        if k < 200_000 {
            st.nontrivial(mix(17, x as u32 as u64));
        }
    }
    st.class_n("generated raw scores", n);
    st.sample(c16_case(Some(ChessMove { source: bbsq(52), dest: bbsq(60), piece: Some(bb::PromotionPiece::Knight) }), Score::WhiteMateIn(3)));
    Ok(())
}

fn c16_replay(v: &Value) -> Result<(), String> {
    let m = if v["move"].is_null() {
        None
    } else {
        let p = if v["move"]["promo"].is_null() { None } else { Some(promo_from_u8(v["move"]["promo"].as_u64().unwrap() as u8).ok_or("promo")?) };
        Some(ChessMove { source: bbsq(v["move"]["from"].as_u64().ok_or("from")? as u8), dest: bbsq(v["move"]["to"].as_u64().ok_or("to")? as u8), piece: p })
    };
    c16_move(m, score_from_json(&v["score"])?)
}

pub const C16: CheckDef = CheckDef {
    id: "C16",
    worker: c16_worker,
    replay: c16_replay,
    rule: "exhaustive: all 64x64x5 = 20480 moves and 'no move' through StableChessMove and EvaluatedMove and back; all 2 x 65536 mate scores, Min, Max; raw scores: boundary set plus generated values (uniform, around zero, near both 32-bit extremes). Scores are compared structurally, not through Ord. Non-trivial = every move / score value is a distinct encoding; distinct by value.",
    assumptions: &["round trip is observed in-process through the public conversion functions (the ABI layout itself is abi_stable's concern)"],
    exhaustive: |_| true,
    uses_reference: false,
    workers: |_| 0,
    known_signature: no_signature,
    profile: "release",
};

// ---------------------------------------------------------------------------------------
// C17

use chess_lookup::{BookMoves, EMPTY_BOOK_MOVES, INITIAL_BOOOK_MOVES};
use chess_movegen::Board;
use refchess::{Mv, Pos};

const BOOK_STEP_BOUND: usize = 1 << 20;

struct BookWalk<'a> {
    st: &'a mut Stats,
    path: Vec<Mv>,
    max_depth: usize,
    leaves: u64,
}

fn book_children(node: BookMoves) -> Result<Vec<chess_lookup::BookMove>, String> {
    let mut out = vec![];
    for (i, m) in node.into_iter().enumerate() {
        if i >= BOOK_STEP_BOUND {
            return Err(format!("C17 iteration from {node:?} does not terminate within {BOOK_STEP_BOUND} steps"));
        }
        out.push(m);
    }
    Ok(out)
}

/// every way of consuming a node's iterator agrees with plain repeated next(): the front ends
/// use count() and nth(x) (chess-cli), and std adaptors (skip, step_by, last, ...) route through
/// whichever of these methods the iterator type overrides
fn book_iter_methods(node: BookMoves, kids: &[chess_lookup::BookMove]) -> Result<u64, String> {
    type K = (u8, u8, BookMoves);
    let key = |m: chess_lookup::BookMove| -> K { (m.source as u8, m.dest as u8, m.children) };
    let due: Vec<K> = kids.iter().map(|m| key(*m)).collect();
    let n = due.len();
    let mut calls = 0u64;
    let mut it = node.into_iter();
    for consumed in 0..=n + 1 {
        let rest = &due[consumed.min(n)..];
        let e = |what: String, got: String, want: String| Err(format!("C17 iterator of {node:?} after {consumed} x next(): {what} gives {got}, repeated next() gives {want}"));
        let (lo, hi) = it.size_hint();
        if lo > rest.len() || hi.map_or(false, |h| h < rest.len()) {
            return e("size_hint()".into(), format!("({lo}, {hi:?})"), format!("{} items", rest.len()));
        }
        let c = it.clone().count();
        if c != rest.len() {
            return e("count()".into(), c.to_string(), rest.len().to_string());
        }
        let l = it.clone().last().map(key);
        if l != rest.last().copied() {
            return e("last()".into(), format!("{l:?}"), format!("{:?}", rest.last()));
        }
        let f = it.clone().fold(vec![], |mut a, x| {
            a.push(key(x));
            a
        });
        if f != rest {
            return e("fold(push)".into(), format!("{f:?}"), format!("{rest:?}"));
        }
        calls += 4;
        for k in crate::itermodel::ks(rest.len()) {
            let mut c = it.clone();
            let g = c.nth(k).map(key);
            if g != rest.get(k).copied() {
                return e(format!("nth({k})"), format!("{g:?}"), format!("{:?}", rest.get(k)));
            }
            let after: Vec<K> = c.clone().take(BOOK_STEP_BOUND).map(key).collect();
            let want_after: &[K] = if k < rest.len() { &rest[k + 1..] } else { &[] };
            if after != want_after {
                return e(format!("the remainder after nth({k})"), format!("{after:?}"), format!("{want_after:?}"));
            }
            if c.next().map(key) != want_after.first().copied() {
                return e(format!("next() after nth({k})"), "something else".into(), format!("{:?}", want_after.first()));
            }
            let sk: Vec<K> = it.clone().skip(k).take(BOOK_STEP_BOUND).map(key).collect();
            let want_sk: &[K] = if k < rest.len() { &rest[k..] } else { &[] };
            if sk != want_sk {
                return e(format!("skip({k})"), format!("{sk:?}"), format!("{want_sk:?}"));
            }
            if k >= 1 {
                let sb: Vec<K> = it.clone().step_by(k).take(BOOK_STEP_BOUND).map(key).collect();
                let want_sb: Vec<K> = rest.iter().copied().step_by(k).collect();
                if sb != want_sb {
                    return e(format!("step_by({k})"), format!("{sb:?}"), format!("{want_sb:?}"));
                }
                calls += 1;
            }
            calls += 4;
        }
        let g = it.next().map(key);
        if g != due.get(consumed).copied() {
            return e("next()".into(), format!("{g:?}"), format!("{:?}", due.get(consumed)));
        }
    }
    Ok(calls)
}

fn book_walk(w: &mut BookWalk, node: BookMoves, pos: &Pos, board: &Board) -> Result<(), String> {
    let kids = guarded(|| book_children(node)).unwrap_or_else(Err)?;
    let calls = guarded(|| book_iter_methods(node, &kids)).unwrap_or_else(Err)?;
    w.st.class_n("iterator method calls (count, last, nth, skip, step_by, fold, size_hint) compared with repeated next()", calls);
    if kids.is_empty() {
        w.leaves += 1;
        w.max_depth = w.max_depth.max(w.path.len());
        return Ok(());
    }
    if w.path.len() > 64 {
        return Err("C17 book path longer than 64 plies (cycle?)".into());
    }
    let legal = pos.legal();
    for k in kids {
        let m = Mv { from: k.source as u8, to: k.dest as u8, promo: None };
        let line = || fmt_moves(&w.path);
        if !legal.contains(&m) {
            return Err(format!("C17 book move {m} is not legal after [{}] (position `{}`)", line(), pos.fen()));
        }
        let Some(nb) = board.move_new(to_cm(m)) else {
            return Err(format!("C17 book move {m} refused by move_new after [{}]", line()));
        };
        let np = pos.apply(m);
        w.st.eval(1);
        w.st.nontrivial(digest(&(w.path.clone(), m)));
        w.path.push(m);
        if w.st.want_sample() && w.path.len() >= 6 {
            w.st.sample(json!({"line": fmt_moves(&w.path)}));
        }
        book_walk(w, k.children, &np, &nb)?;
        w.path.pop();
    }
    Ok(())
}

fn c17_run(st: &mut Stats) -> Result<(), String> {
    let mut w = BookWalk { st, path: vec![], max_depth: 0, leaves: 0 };
    book_walk(&mut w, INITIAL_BOOOK_MOVES, &Pos::start(), &Board::standard())?;
    let (leaves, depth) = (w.leaves, w.max_depth);
    st.class_n("leaves", leaves);
    st.class_n("max depth", depth as u64);
    // the empty book
    let kids = guarded(|| book_children(EMPTY_BOOK_MOVES)).unwrap_or_else(Err)?;
    if !kids.is_empty() {
        return Err(format!("C17 EMPTY_BOOK_MOVES yields {} moves", kids.len()));
    }
    if st.evaluations == 0 {
        return Err("C17 the book has no edges at all".into());
    }
    Ok(())
}

/// The command-line front end replays book lines with `assert!(board.move_mut(..))`: it may
/// do so only from the standard start. Each scenario starts the real binary (`on-board` with
/// or without a position argument) and watches it until it leaves the book phase (it prints
/// the position as FEN before its first search), exits, or a deadline passes. The only verdict
/// is a panic before the first search; slowness, other exit codes and changed output formats
/// are no verdict. Without an argument the CLI picks its line with its own RNG: which line is
/// replayed varies from run to run, the verdict on a correct tree cannot.
fn cli_scenario(bin: &str, fen: Option<&str>) -> Result<&'static str, String> {
    cli_scenario_bytes(bin, fen.map(|f| f.as_bytes()), "C17", "it replays opening-book moves from a position other than the one the book line starts from, or a book move was refused")
}

/// the same for an arbitrary byte-string argument (C06: the position argument is untrusted input)
pub fn cli_scenario_bytes(bin: &str, arg: Option<&[u8]>, prop: &str, meaning: &str) -> Result<&'static str, String> {
    use std::io::{BufRead, BufReader};
    use std::os::unix::ffi::OsStrExt;
    use std::process::{Command, Stdio};
    let fen = arg.map(|a| String::from_utf8_lossy(a).into_owned());
    let fen = fen.as_deref();
    let mut cmd = Command::new(bin);
    cmd.arg("on-board");
    if let Some(a) = arg {
        cmd.arg(std::ffi::OsStr::from_bytes(a));
    }
    cmd.env("RUST_BACKTRACE", "0");
    let mut ch = match cmd.stdin(Stdio::null()).stdout(Stdio::null()).stderr(Stdio::piped()).spawn() {
        Ok(c) => c,
        Err(_) => return Ok("CLI stage: could not start the binary (no verdict)"),
    };
    let err = ch.stderr.take().expect("piped");
    let (tx, rx) = std::sync::mpsc::channel::<String>();
    let reader = std::thread::spawn(move || {
        for l in BufReader::new(err).lines().map_while(Result::ok) {
            if tx.send(l).is_err() {
                break;
            }
        }
    });
    let deadline = std::time::Instant::now() + std::time::Duration::from_secs(4);
    let mut tail: Vec<String> = vec![];
    let mut panic_line: Option<String> = None;
    let mut outcome = "CLI scenario: deadline passed before the first search (no verdict)";
    loop {
        match rx.recv_timeout(std::time::Duration::from_millis(50)) {
            Ok(l) => {
                let is_fen = l.split(' ').count() == 6 && l.split(' ').next().map_or(false, |b| b.matches('/').count() == 7);
                if is_fen {
                    outcome = "CLI scenario: reached its first search without a panic";
                    break;
                }
                if l.contains("panicked at") && panic_line.is_none() {
                    panic_line = Some(l.clone());
                }
                tail.push(l);
                if tail.len() > 12 {
                    tail.remove(0);
                }
            }
            Err(std::sync::mpsc::RecvTimeoutError::Timeout) => {
                if std::time::Instant::now() > deadline {
                    break;
                }
            }
            Err(std::sync::mpsc::RecvTimeoutError::Disconnected) => {
                // stderr closed: the process is exiting
                let st = ch.wait().ok();
                let _ = reader.join();
                if st.and_then(|s| s.code()) == Some(101) && panic_line.is_some() {
                    return Err(format!(
                        "{prop} chess-cli on-board {} panics before its first search ({meaning}): {}",
                        fen.map_or("(no position argument: book from the standard start)".to_string(), |f| format!("`{}` (bytes {:?})", f.escape_debug(), arg.unwrap_or_default())),
                        format!("{} | {}", panic_line.unwrap_or_default(), tail.join(" | ")).chars().take(600).collect::<String>()
                    ));
                }
                return Ok("CLI scenario: process ended without a panic (argument rejected, or nothing to do)");
            }
        }
    }
    let _ = ch.kill();
    let _ = ch.wait();
    drop(rx);
    let _ = reader.join();
    Ok(outcome)
}

fn cli_stage(st: &mut Stats) -> Result<(), String> {
    let bin = std::env::var("VERIF_CHESS_CLI").unwrap_or_else(|_| "/verif/target/release/chess-cli".to_string());
    if !std::path::Path::new(&bin).exists() {
        st.class("CLI stage skipped: chess-cli binary not built");
        return Ok(());
    }
    let mut scenarios: Vec<Option<String>> = vec![None, None, None, None];
    let start = "rnbqkbnr/pppppppp/8/8/8/8/PPPPPPPP/RNBQKBNR";
    for turn in ["w", "b"] {
        for rights in ["KQkq", "-", "K", "Qk", "kq", "KQ", "q"] {
            for clocks in ["0 1", "7 30"] {
                scenarios.push(Some(format!("{start} {turn} {rights} - {clocks}")));
            }
        }
    }
    // the no-right start, several times (a replayed line fails only if it castles)
    for _ in 0..6 {
        scenarios.push(Some(format!("{start} w - - 0 1")));
    }
    for f in [
        "rnbqkbnr/pppppppp/8/8/4P3/8/PPPP1PPP/RNBQKBNR b KQkq e3 0 1",
        "rnbqkbnr/pppp1ppp/8/4p3/4P3/8/PPPP1PPP/RNBQKBNR w KQkq e6 0 2",
        "rnbqkbnr/pppppppp/8/8/8/5N2/PPPPPPPP/RNBQKB1R b KQkq - 1 1",
        "rnbqkb1r/pppppppp/5n2/8/8/5N2/PPPPPPPP/RNBQKB1R w KQkq - 2 2",
        "rnbqkbnr/pppppppp/8/8/8/8/PPPPPPPP/RNBQKBN1 w Qkq - 0 1",
        "r3k2r/8/8/8/8/8/8/R3K2R w KQkq - 0 1",
        "4k3/8/8/8/8/8/8/4K2R w K - 0 1",
    ] {
        scenarios.push(Some(f.to_string()));
    }
    let results: Vec<Result<&'static str, String>> = std::thread::scope(|sc| {
        let mut out = vec![];
        for chunk in scenarios.chunks(8) {
            let hs: Vec<_> = chunk.iter().map(|f| { let bin = bin.clone(); sc.spawn(move || cli_scenario(&bin, f.as_deref())) }).collect();
            for h in hs {
                out.push(h.join().unwrap_or_else(|_| Ok("CLI scenario: harness thread failed (no verdict)")));
            }
        }
        out
    });
    for r in results {
        let c = r?;
        st.class(c);
        st.eval(1);
    }
    Ok(())
}

fn c17_worker(ctx: &WorkerCtx) -> Result<(), Fail> {
    if ctx.idx != 0 {
        return Ok(());
    }
    let mut st = ctx.stats.borrow_mut();
    st.sample_gap = 5000;
    st.sample_cap = 5;
    c17_run(&mut st).map_err(|d| fail(json!({"c17": "walk"}), d))?;
    cli_stage(&mut st).map_err(|d| fail(json!({"c17": "cli"}), d))
}

pub const C17: CheckDef = CheckDef {
    id: "C17",
    worker: c17_worker,
    replay: |v| {
        if v.get("c17").and_then(|x| x.as_str()) == Some("cli") {
            cli_stage(&mut Stats::new())
        } else {
            c17_run(&mut Stats::new())
        }
    },
    rule: "complete walk of the embedded opening-book trie from INITIAL_BOOOK_MOVES (and of EMPTY_BOOK_MOVES) in lockstep with the reference model and the implementation board from the standard position: every edge (source, dest, no promotion) must be in the reference legal set and accepted by move_new; every node's iterator must terminate, and in every consumed-prefix state its count(), last(), fold, size_hint, nth(k), skip(k), step_by(k) (k up to past the end and around 2^8, 2^16, 2^32, usize::MAX) must agree with repeated next(). evaluations = edges. Every edge is non-trivial; distinct by (path, move). The whole book is the input space. CLI stage: the real chess-cli binary is started on 41 position arguments (start placement x side to move x castling subsets x clocks, positions after one or two book moves, other positions) and four times without one; a panic before its first search is a violation (book lines may be replayed from the standard start only).",
    assumptions: &["'stays inside the table' is decided by re-running the walk in the checked profile, where the debug_assert on the index traps; in release an out-of-table read is observable only through an illegal move, a crash or non-termination"],
    exhaustive: |_| true,
    uses_reference: true,
    workers: |_| 1,
    known_signature: no_signature,
    profile: "release",
};
