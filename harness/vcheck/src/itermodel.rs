//! "Behaves like a slice iterator": every provided `Iterator` / `DoubleEndedIterator` method a
//! type may override (count, last, nth, fold, try_fold, min, max, size_hint, ...) and the
//! adaptors std builds on them (skip, step_by, take, rev, chain, zip) are compared, on clones
//! of the iterator in its current state, with the same call on a model iterator (a slice /
//! Vec iterator over the values that are still due).
//!
//! The functions never advance the iterator they are given: they clone it for every call, so
//! they can be applied in every state a driver reaches.

use std::fmt::Debug;

/// skip / index arguments: everything up to just past the end, and values around the 8-, 16-
/// and 32-bit truncation points
pub fn ks(n: usize) -> Vec<usize> {
    let mut v: Vec<usize> = (0..=n + 2).collect();
    v.extend([255usize, 256, 257, 256 + n, 65535, 65536, 65537, (1 << 32) - 1, 1 << 32, (1 << 32) + 1, (1 << 32) + n, usize::MAX / 2, usize::MAX - 1, usize::MAX]);
    v
}

macro_rules! same {
    ($name:expr, $state:expr, $what:expr, $got:expr, $want:expr) => {{
        let (g, w) = ($got, $want);
        if g != w {
            return Err(format!("{} in state [{}]: {} gives {:?}, the model iterator gives {:?}", $name, $state, $what, g, w));
        }
    }};
}

/// forward-only consumers. `exact_hint`: the iterator promises an exact size_hint (as a slice
/// iterator does); otherwise only lower <= due <= upper is required.
pub fn fwd_consumers<T, I, M>(name: &str, state: &str, it: &I, m: &M, exact_hint: bool) -> Result<u64, String>
where
    T: Copy + PartialEq + Debug,
    I: Iterator<Item = T> + Clone,
    M: Iterator<Item = T> + Clone,
{
    let due: Vec<T> = m.clone().collect();
    let n = due.len();
    let mut calls = 0u64;
    // size_hint
    let (lo, hi) = it.size_hint();
    if exact_hint {
        same!(name, state, "size_hint()", (lo, hi), (n, Some(n)));
    } else if lo > n || hi.map_or(false, |h| h < n) {
        return Err(format!("{name} in state [{state}]: size_hint() = ({lo}, {hi:?}) but {n} items are still due"));
    }
    same!(name, state, "collect()", it.clone().collect::<Vec<T>>(), due.clone());
    same!(name, state, "count()", it.clone().count(), n);
    same!(name, state, "last()", it.clone().last(), due.last().copied());
    same!(name, state, "fold(push)", it.clone().fold(vec![], |mut a, x| { a.push(x); a }), due.clone());
    {
        let mut v = vec![];
        it.clone().for_each(|x| v.push(x));
        same!(name, state, "for_each(push)", v, due.clone());
    }
    same!(name, state, "reduce(second)", it.clone().reduce(|_, b| b), due.last().copied());
    same!(name, state, "eq(model)", it.clone().eq(m.clone()), true);
    same!(name, state, "enumerate().last()", it.clone().enumerate().last(), m.clone().enumerate().last());
    same!(name, state, "zip(model).count()", it.clone().zip(m.clone()).count(), n);
    same!(name, state, "chain(self).count()", it.clone().chain(it.clone()).count(), 2 * n);
    same!(name, state, "chain(self).last()", it.clone().chain(it.clone()).last(), due.last().copied());
    same!(name, state, "any(false)", it.clone().any(|_| false), false);
    same!(name, state, "all(true)", it.clone().all(|_| true), true);
    calls += 14;
    // fused like a slice iterator: None stays None
    {
        let mut c = it.clone();
        for _ in 0..n {
            c.next();
        }
        for _ in 0..3 {
            same!(name, state, "next() after exhaustion", c.next(), None::<T>);
        }
        same!(name, state, "last() after exhaustion", c.clone().last(), None::<T>);
        same!(name, state, "count() after exhaustion", c.clone().count(), 0);
        same!(name, state, "nth(0) after exhaustion", c.clone().nth(0), None::<T>);
        calls += 6;
    }
    // element-directed searches and early exits
    for (j, x) in due.iter().enumerate() {
        same!(name, state, format!("position(== item {j})"), it.clone().position(|y| y == *x), due.iter().position(|y| y == x));
        same!(name, state, format!("find(== item {j})"), it.clone().find(|y| y == x), Some(*x));
        // try_fold that stops at item j, then the rest must still be there
        let mut c = it.clone();
        let mut mm = m.clone();
        let r1: Result<usize, usize> = c.try_fold(0usize, |a, y| if y == *x { Err(a) } else { Ok(a + 1) });
        let r2: Result<usize, usize> = mm.try_fold(0usize, |a, y| if y == *x { Err(a) } else { Ok(a + 1) });
        same!(name, state, format!("try_fold(stop at item {j})"), r1, r2);
        same!(name, state, format!("remainder after try_fold(stop at item {j})"), c.collect::<Vec<T>>(), mm.collect::<Vec<T>>());
        // by_ref().take(j) then the rest
        let mut c = it.clone();
        let mut mm = m.clone();
        same!(name, state, format!("by_ref().take({j})"), c.by_ref().take(j).collect::<Vec<T>>(), mm.by_ref().take(j).collect::<Vec<T>>());
        same!(name, state, format!("remainder after by_ref().take({j})"), c.collect::<Vec<T>>(), mm.collect::<Vec<T>>());
        calls += 6;
    }
    for k in ks(n) {
        let mut c = it.clone();
        let mut mm = m.clone();
        same!(name, state, format!("nth({k})"), c.nth(k), mm.nth(k));
        same!(name, state, format!("remainder after nth({k})"), c.clone().collect::<Vec<T>>(), mm.clone().collect::<Vec<T>>());
        same!(name, state, format!("count() after nth({k})"), c.count(), mm.count());
        same!(name, state, format!("skip({k}).collect()"), it.clone().skip(k).collect::<Vec<T>>(), m.clone().skip(k).collect::<Vec<T>>());
        same!(name, state, format!("skip({k}).last()"), it.clone().skip(k).last(), m.clone().skip(k).last());
        same!(name, state, format!("take({k}).collect()"), it.clone().take(k).collect::<Vec<T>>(), m.clone().take(k).collect::<Vec<T>>());
        same!(name, state, format!("take({k}).last()"), it.clone().take(k).last(), m.clone().take(k).last());
        if k >= 1 {
            same!(name, state, format!("step_by({k}).collect()"), it.clone().step_by(k).collect::<Vec<T>>(), m.clone().step_by(k).collect::<Vec<T>>());
            same!(name, state, format!("step_by({k}).count()"), it.clone().step_by(k).count(), m.clone().step_by(k).count());
            same!(name, state, format!("skip(1).step_by({k}).last()"), it.clone().skip(1).step_by(k).last(), m.clone().skip(1).step_by(k).last());
            calls += 3;
        }
        calls += 7;
    }
    Ok(calls)
}

/// consumers that need an order on the items
pub fn ord_consumers<T, I, M>(name: &str, state: &str, it: &I, m: &M) -> Result<u64, String>
where
    T: Copy + Ord + Debug,
    I: Iterator<Item = T> + Clone,
    M: Iterator<Item = T> + Clone,
{
    same!(name, state, "min()", it.clone().min(), m.clone().min());
    same!(name, state, "max()", it.clone().max(), m.clone().max());
    same!(name, state, "cmp(model)", it.clone().cmp(m.clone()), std::cmp::Ordering::Equal);
    same!(name, state, "is_sorted()", it.clone().is_sorted(), m.clone().is_sorted());
    same!(name, state, "min_by_key(reverse)", it.clone().min_by_key(|x| std::cmp::Reverse(*x)), m.clone().min_by_key(|x| std::cmp::Reverse(*x)));
    same!(name, state, "max_by(cmp)", it.clone().max_by(|a, b| a.cmp(b)), m.clone().max_by(|a, b| a.cmp(b)));
    Ok(6)
}

/// consumers from the back
pub fn back_consumers<T, I, M>(name: &str, state: &str, it: &I, m: &M) -> Result<u64, String>
where
    T: Copy + PartialEq + Debug,
    I: DoubleEndedIterator<Item = T> + Clone,
    M: DoubleEndedIterator<Item = T> + Clone,
{
    let due: Vec<T> = m.clone().collect();
    let n = due.len();
    let mut calls = 0u64;
    let mut rdue = due.clone();
    rdue.reverse();
    same!(name, state, "rev().collect()", it.clone().rev().collect::<Vec<T>>(), rdue.clone());
    same!(name, state, "rev().count()", it.clone().rev().count(), n);
    same!(name, state, "rev().last()", it.clone().rev().last(), due.first().copied());
    same!(name, state, "rfold(push)", it.clone().rfold(vec![], |mut a, x| { a.push(x); a }), rdue.clone());
    same!(name, state, "next_back()", it.clone().next_back(), due.last().copied());
    same!(name, state, "rev().rev().collect()", it.clone().rev().rev().collect::<Vec<T>>(), due.clone());
    calls += 6;
    {
        let mut c = it.clone();
        for _ in 0..n {
            c.next_back();
        }
        for _ in 0..3 {
            same!(name, state, "next_back() after exhaustion from the back", c.next_back(), None::<T>);
        }
        same!(name, state, "next() after exhaustion from the back", c.clone().next(), None::<T>);
        same!(name, state, "last() after exhaustion from the back", c.clone().last(), None::<T>);
        same!(name, state, "count() after exhaustion from the back", c.clone().count(), 0);
        same!(name, state, "size_hint() after exhaustion from the back", c.size_hint(), (0, Some(0)));
        calls += 7;
    }
    for (j, x) in due.iter().enumerate() {
        same!(name, state, format!("rfind(== item {j})"), it.clone().rfind(|y| y == x), Some(*x));
        let mut c = it.clone();
        let mut mm = m.clone();
        let r1: Result<usize, usize> = c.try_rfold(0usize, |a, y| if y == *x { Err(a) } else { Ok(a + 1) });
        let r2: Result<usize, usize> = mm.try_rfold(0usize, |a, y| if y == *x { Err(a) } else { Ok(a + 1) });
        same!(name, state, format!("try_rfold(stop at item {j})"), r1, r2);
        same!(name, state, format!("remainder after try_rfold(stop at item {j})"), c.collect::<Vec<T>>(), mm.collect::<Vec<T>>());
        calls += 3;
    }
    for k in ks(n) {
        let mut c = it.clone();
        let mut mm = m.clone();
        same!(name, state, format!("nth_back({k})"), c.nth_back(k), mm.nth_back(k));
        same!(name, state, format!("remainder after nth_back({k})"), c.clone().collect::<Vec<T>>(), mm.clone().collect::<Vec<T>>());
        same!(name, state, format!("last() after nth_back({k})"), c.clone().last(), mm.clone().last());
        same!(name, state, format!("rev().nth({k})"), it.clone().rev().nth(k), m.clone().rev().nth(k));
        same!(name, state, format!("rev().skip({k}).collect()"), it.clone().rev().skip(k).collect::<Vec<T>>(), m.clone().rev().skip(k).collect::<Vec<T>>());
        if k >= 1 {
            same!(name, state, format!("rev().step_by({k}).collect()"), it.clone().rev().step_by(k).collect::<Vec<T>>(), m.clone().rev().step_by(k).collect::<Vec<T>>());
            calls += 1;
        }
        calls += 5;
    }
    Ok(calls)
}

/// drive a double-ended iterator into every (front, back) consumption state, in three orders
/// (fronts first, backs first, alternating), over-consumption included, and run all consumers
/// in each state
pub fn all_states_de<T, I>(name: &str, mk: impl Fn() -> I, items: &[T], extra: &dyn Fn(&str, &str, &I, &std::iter::Copied<std::slice::Iter<'_, T>>) -> Result<u64, String>) -> Result<(u64, u64), String>
where
    T: Copy + PartialEq + Debug,
    I: DoubleEndedIterator<Item = T> + Clone,
{
    let n = items.len();
    let (mut states, mut calls) = (0u64, 0u64);
    for order in 0..3 {
        for f in 0..=n + 2 {
            for b in 0..=n + 2 {
                let mut it = mk();
                let mut m = items.iter().copied();
                let mut trace = String::new();
                let (mut ff, mut bb) = (f, b);
                let step = |front: bool, it: &mut I, m: &mut std::iter::Copied<std::slice::Iter<'_, T>>, trace: &mut String| -> Result<(), String> {
                    let (g, w) = if front { (it.next(), m.next()) } else { (it.next_back(), m.next_back()) };
                    trace.push_str(if front { "next " } else { "next_back " });
                    if g != w {
                        return Err(format!("{name} after [{}]: got {g:?}, the model iterator gives {w:?}", trace.trim_end()));
                    }
                    Ok(())
                };
                match order {
                    0 => {
                        for _ in 0..f {
                            step(true, &mut it, &mut m, &mut trace)?;
                        }
                        for _ in 0..b {
                            step(false, &mut it, &mut m, &mut trace)?;
                        }
                    }
                    1 => {
                        for _ in 0..b {
                            step(false, &mut it, &mut m, &mut trace)?;
                        }
                        for _ in 0..f {
                            step(true, &mut it, &mut m, &mut trace)?;
                        }
                    }
                    _ => {
                        while ff > 0 || bb > 0 {
                            if ff > 0 {
                                step(true, &mut it, &mut m, &mut trace)?;
                                ff -= 1;
                            }
                            if bb > 0 {
                                step(false, &mut it, &mut m, &mut trace)?;
                                bb -= 1;
                            }
                        }
                    }
                }
                let state = trace.trim_end().to_string();
                calls += fwd_consumers(name, &state, &it, &m, true)?;
                calls += back_consumers(name, &state, &it, &m)?;
                calls += extra(name, &state, &it, &m)?;
                states += 1;
            }
        }
    }
    Ok((states, calls))
}

/// forward-only iterators: every prefix consumed by next(), over-consumption included
pub fn all_states_fwd<T, I>(name: &str, mk: impl Fn() -> I, items: &[T], exact_hint: bool) -> Result<(u64, u64), String>
where
    T: Copy + PartialEq + Debug,
    I: Iterator<Item = T> + Clone,
{
    all_states_fwd_with(name, mk, items, exact_hint, &|_, _, _, _| Ok(0))
}

pub fn all_states_fwd_with<T, I>(name: &str, mk: impl Fn() -> I, items: &[T], exact_hint: bool, extra: &dyn Fn(&str, &str, &I, &std::iter::Copied<std::slice::Iter<'_, T>>) -> Result<u64, String>) -> Result<(u64, u64), String>
where
    T: Copy + PartialEq + Debug,
    I: Iterator<Item = T> + Clone,
{
    let n = items.len();
    let (mut states, mut calls) = (0u64, 0u64);
    let mut it = mk();
    let mut m = items.iter().copied();
    for f in 0..=n + 2 {
        let state = format!("{f} x next");
        calls += fwd_consumers(name, &state, &it, &m, exact_hint)?;
        calls += extra(name, &state, &it, &m)?;
        states += 1;
        let (g, w) = (it.next(), m.next());
        if g != w {
            return Err(format!("{name} after [{state}]: next() gives {g:?}, the model iterator gives {w:?}"));
        }
    }
    Ok((states, calls))
}
