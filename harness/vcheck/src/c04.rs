//! C04: the position hash is a pure function of the position.

use crate::conv::*;
use crate::fw::*;
use crate::gen::*;
use crate::play::{apply_clocks, case_from_json, case_json};
use chess_bitboard as bb;
use chess_engine::ThreeFold;
use chess_movegen::Board;
use refchess::{Key, Mv, Pos, C, P};
use serde_json::{json, Value};
use std::collections::HashMap;

fn keys_exhaustive(st: &mut Stats) -> Result<(), String> {
    let mut all: Vec<(u64, String)> = vec![];
    for c in [bb::Color::White, bb::Color::Black] {
        for s in 0..64u8 {
            for p in bb::Piece::all() {
                all.push((chess_lookup::zobrist(sq(s), p, c), format!("piece key ({c:?}, {p:?}, {})", refchess::sq_name(s))));
            }
        }
    }
    for i in 0..16usize {
        all.push((chess_lookup::castle_rights_zobrist(i), format!("castling-rights key {i:04b}")));
    }
    for f in 0..8u8 {
        all.push((chess_lookup::en_passant_zobrist(bb::File::from_u8(f).unwrap()), format!("en-passant key file {}", (b'a' + f) as char)));
    }
    for c in [bb::Color::White, bb::Color::Black] {
        all.push((chess_lookup::turn_zobrist(c), format!("side-to-move key {c:?}")));
    }
    if all.len() != 794 {
        return Err(format!("C04 expected 794 keys, enumerated {}", all.len()));
    }
    let mut seen: HashMap<u64, &str> = HashMap::new();
    for (k, name) in &all {
        if *k == 0 {
            return Err(format!("C04 {name} is zero: that component does not influence the hash"));
        }
        if let Some(other) = seen.insert(*k, name) {
            return Err(format!("C04 {name} equals {other} ({k:#018x}): two different components cancel out"));
        }
        st.eval(1);
        st.nontrivial(mix(4, *k));
    }
    // the two side-to-move keys must also differ from each other under xor with nothing else
    st.class("794 keys: non-zero and pairwise distinct");
    Ok(())
}

fn same(a: &Board, b: &Board, what: &str) -> Result<(), String> {
    if a != b {
        return Err(format!("C04 {what}: boards compare unequal: `{a}` vs `{b}`"));
    }
    if a.zobrist() != b.zobrist() || std_hash(a) != std_hash(b) {
        return Err(format!("C04 {what}: equal boards hash differently: `{a}` {:#x} vs `{b}` {:#x}", a.zobrist(), b.zobrist()));
    }
    Ok(())
}

fn differ(a: &Board, b: &Board, what: &str) -> Result<(), String> {
    if a == b {
        return Err(format!("C04 {what}: different positions compare equal: `{a}` vs `{b}`"));
    }
    if a.zobrist() == b.zobrist() || std_hash(a) == std_hash(b) {
        return Err(format!("C04 {what}: different positions hash equal ({:#x}): `{a}` vs `{b}`", a.zobrist()));
    }
    Ok(())
}

/// single-component variants of `p` built from scratch; every accepted one must be unequal
/// to the original and hash differently
fn variants(p: &Pos, b: &Board, aux: &mut Expand, st: &mut Stats) -> Result<(), String> {
    let mut tried = 0;
    let mut try_variant = |v: Pos, what: &str, st: &mut Stats| -> Result<(), String> {
        if v.key() == p.key() || !v.unplayable_reasons().is_empty() {
            return Ok(());
        }
        let Ok(vb) = v.fen().parse::<Board>() else { return Ok(()) };
        differ(b, &vb, what)?;
        st.class(&format!("variant: {what}"));
        st.eval(1);
        st.nontrivial(digest(&(p.key(), v.key())));
        Ok(())
    };
    let occupied: Vec<u8> = (0..64u8).filter(|&s| p.sq[s as usize].is_some()).collect();
    let empty: Vec<u8> = (0..64u8).filter(|&s| p.sq[s as usize].is_none()).collect();
    for _ in 0..3 {
        let s = occupied[aux.below(occupied.len() as u64) as usize];
        let (c, k) = p.sq[s as usize].unwrap();
        // moved
        if !empty.is_empty() {
            let t = empty[aux.below(empty.len() as u64) as usize];
            let mut v = p.clone();
            v.sq[s as usize] = None;
            v.sq[t as usize] = Some((c, k));
            v.castle = [false; 4];
            let mut base = p.clone();
            base.castle = [false; 4];
            // compare like with like: rights dropped on both sides of the comparison
            if base.unplayable_reasons().is_empty() && v.unplayable_reasons().is_empty() && (k != P::Pawn || (1..=6).contains(&refchess::rk(t))) {
                if let (Ok(bb0), Ok(vb)) = (base.fen().parse::<Board>(), v.fen().parse::<Board>()) {
                    differ(&bb0, &vb, "one piece moved")?;
                    st.class("variant: one piece moved");
                    st.eval(1);
                    tried += 1;
                }
            }
        }
        if k != P::King {
            // retyped
            let nk = [P::Pawn, P::Knight, P::Bishop, P::Rook, P::Queen][aux.below(5) as usize];
            if nk != k && (nk != P::Pawn || (1..=6).contains(&refchess::rk(s))) {
                let mut v = p.clone();
                v.sq[s as usize] = Some((c, nk));
                try_variant(v, "one piece retyped", st)?;
            }
            // recoloured
            let mut v = p.clone();
            v.sq[s as usize] = Some((c.flip(), k));
            try_variant(v, "one piece recoloured", st)?;
            // removed
            let mut v = p.clone();
            v.sq[s as usize] = None;
            try_variant(v, "one piece removed", st)?;
        }
    }
    // other side to move (only without marker)
    if p.ep.is_none() {
        let mut v = p.clone();
        v.turn = p.turn.flip();
        try_variant(v, "other side to move", st)?;
    }
    // every smaller rights subset
    for i in 0..4 {
        if p.castle[i] {
            let mut v = p.clone();
            v.castle[i] = false;
            try_variant(v, "one castling right dropped", st)?;
        }
    }
    if p.castle.iter().filter(|x| **x).count() >= 2 {
        let mut v = p.clone();
        v.castle = [false; 4];
        try_variant(v, "all castling rights dropped", st)?;
    }
    // marker removed / moved to another file where a double-stepped pawn also stands
    if let Some(f) = p.ep {
        let mut v = p.clone();
        v.ep = None;
        try_variant(v, "marker removed", st)?;
        for g in 0..8u8 {
            if g != f {
                let mut v = p.clone();
                v.ep = Some(g);
                try_variant(v, "marker on another file", st)?;
            }
        }
    } else {
        // marker added where the position allows one
        for g in 0..8u8 {
            let mut v = p.clone();
            v.ep = Some(g);
            v.half = 0;
            try_variant(v, "marker added", st)?;
        }
    }
    // clocks are not part of the position
    let mut v = p.clone();
    v.half = (p.half + 1 + aux.below(50) as u32).min(9999);
    v.full = (p.full + aux.below(500) as u32).min(9999);
    if v.ep.is_none() {
        if let Ok(vb) = v.fen().parse::<Board>() {
            same(b, &vb, "positions differing only in clocks")?;
            st.class("pair differing only in clocks");
            st.eval(1);
        }
    }
    let _ = tried;
    Ok(())
}

/// look for a transposition below `p`: a1 b1 a2 b2 vs a2 b1 a1 b2 / a1 b2 a2 b1
fn transposition(p: &Pos, b: &Board, aux: &mut Expand, st: &mut Stats) -> Result<(), String> {
    let l0 = p.legal();
    if l0.is_empty() {
        return Ok(());
    }
    let a1 = l0[aux.below(l0.len() as u64) as usize];
    let p1 = p.apply(a1);
    let l1 = p1.legal();
    if l1.is_empty() {
        return Ok(());
    }
    let b1 = l1[aux.below(l1.len() as u64) as usize];
    let p2 = p1.apply(b1);
    let l2 = p2.legal();
    if l2.is_empty() {
        return Ok(());
    }
    let start = aux.below(l2.len() as u64) as usize;
    for i in 0..l2.len() {
        let a2 = l2[(start + i) % l2.len()];
        let p3 = p2.apply(a2);
        let l3 = p3.legal();
        if l3.is_empty() {
            continue;
        }
        let b2 = l3[aux.below(l3.len() as u64) as usize];
        let end = p3.apply(b2);
        for order in [[a2, b1, a1, b2], [a1, b2, a2, b1], [a2, b2, a1, b1]] {
            if order == [a1, b1, a2, b2] {
                continue;
            }
            // is the reordering legal in the reference and does it reach the same key?
            let mut q = p.clone();
            let mut ok = true;
            for m in order {
                if !q.legal().contains(&m) {
                    ok = false;
                    break;
                }
                q = q.apply(m);
            }
            if !ok || q.key() != end.key() {
                continue;
            }
            let walk = |ms: [Mv; 4]| -> Result<Board, String> {
                let mut x = *b;
                for m in ms {
                    x = x.move_new(to_cm(m)).ok_or_else(|| format!("C04 move_new refuses legal {m}"))?;
                }
                Ok(x)
            };
            let x = walk([a1, b1, a2, b2])?;
            let y = walk(order)?;
            same(&x, &y, &format!("transposition [{}] vs [{}] from `{}`", fmt_moves(&[a1, b1, a2, b2]), fmt_moves(&order), p.fen()))?;
            let scratch = to_board(&end)?;
            same(&x, &scratch, "moved board vs scratch board")?;
            st.eval(1);
            st.class("transposition pair compared");
            if st.nontrivial(digest(&(p.key(), a1, b1, a2, b2, order))) && st.want_sample() {
                st.sample(json!({"from": p.fen(), "order_1": fmt_moves(&[a1, b1, a2, b2]), "order_2": fmt_moves(&order), "reaches": end.fen()}));
            }
            return Ok(());
        }
    }
    Ok(())
}

fn run_case(c: &PlayCase, st: &mut Stats) -> Result<(), String> {
    let Some(root) = build_root(&c.root) else {
        if !st.frozen {
            st.rejected += 1;
        }
        return Ok(());
    };
    let mut pos = apply_clocks(root, c);
    // the reversible manoeuvres add plies beyond the generated length: keep every visited
    // board within the four-digit clocks the parser reads back
    pos.full = pos.full.min(9000);
    pos.half = pos.half.min(9000);
    let mut b = to_board(&pos)?;
    let mut aux = Expand(c.aux);
    let mut tf = ThreeFold::new();
    let mut scratch_buf = Board::standard();
    let mut counts: HashMap<Key, u32> = HashMap::new();
    let add = |tf: &mut ThreeFold, counts: &mut HashMap<Key, u32>, b: &Board, p: &Pos, st: &mut Stats| -> Result<(), String> {
        let flag = tf.add(*b);
        let n = counts.entry(p.key()).or_insert(0);
        *n += 1;
        if flag != (*n == 3) {
            return Err(format!("C04 ThreeFold::add reports {flag} at occurrence {n} of `{}`", p.fen()));
        }
        let got = tf.get(b) as u32;
        if got != (*n).min(255) {
            return Err(format!("C04 ThreeFold::get = {got} but `{}` has occurred {n} time(s)", p.fen()));
        }
        // a board of the same position built from scratch must find the same entry
        let scratch = to_board(p)?;
        if tf.get(&scratch) as u32 != (*n).min(255) {
            return Err(format!("C04 ThreeFold::get differs for a from-scratch board of `{}`", p.fen()));
        }
        if *n >= 2 {
            st.class("repetition table: position seen again");
            st.nontrivial(digest(&(p.key(), *n)));
        }
        st.eval(1);
        Ok(())
    };
    add(&mut tf, &mut counts, &b, &pos, st)?;
    for (ply, &(bias, idx)) in c.choices.iter().enumerate() {
        let legal = pos.legal();
        if legal.is_empty() {
            break;
        }
        if (c.aux >> (ply % 60)) & 1 == 1 {
            transposition(&pos, &b, &mut aux, st)?;
        }
        if (c.aux >> ((ply + 7) % 60)) & 3 == 3 {
            variants(&pos, &to_board(&pos)?, &mut aux, st)?;
        }
        // every 8th choice becomes a reversible manoeuvre so that positions recur
        if ply % 8 == 5 {
            let sh = crate::c15::shuffles(&pos);
            if !sh.is_empty() {
                let cyc = sh[(idx as usize * sh.len()) >> 16];
                for _ in 0..(1 + bias % 3) {
                    for m in cyc {
                        pos = pos.apply(m);
                        b = b.move_new(to_cm(m)).ok_or("C04 move_new refuses a legal move")?;
                        add(&mut tf, &mut counts, &b, &pos, st)?;
                    }
                }
                same(&b, &to_board(&pos)?, "after a reversible manoeuvre: moved vs scratch")?;
                continue;
            }
        }
        let m = pick(&pos, &legal, bias, idx);
        pos = pos.apply(m);
        // the three checked move operations in turn; move_into writes into a buffer that holds
        // an unrelated earlier board (as a search that reuses one buffer for siblings does)
        match ply % 3 {
            0 => b = b.move_new(to_cm(m)).ok_or_else(|| format!("C04 move_new refuses legal {m}"))?,
            1 => {
                if !b.move_mut(to_cm(m)) {
                    return Err(format!("C04 move_mut refuses legal {m}"));
                }
            }
            _ => {
                if !b.move_into(to_cm(m), &mut scratch_buf) {
                    return Err(format!("C04 move_into refuses legal {m}"));
                }
                std::mem::swap(&mut b, &mut scratch_buf);
            }
        }
        same(&b, &to_board(&pos)?, "moved vs scratch")?;
        add(&mut tf, &mut counts, &b, &pos, st)?;
    }
    let _ = C::White;
    Ok(())
}

fn worker(ctx: &WorkerCtx) -> Result<(), Fail> {
    if ctx.idx == 0 {
        let mut st = ctx.stats.borrow_mut();
        guarded(|| keys_exhaustive(&mut st)).unwrap_or_else(Err).map_err(|d| Fail { case: json!({"keys": true}), detail: d })?;
    }
    // boards assembled by builder histories (incl. rejected placements and removals) must hash
    // like the parser's board of the same position: the hash is a function of the position only
    run_proptest(ctx, 44, ctx.share(ctx.tier.pick(100_000, 1_000_000)), crate::c05_extra::builder_strategy(), |c| json!({"builder": c}), crate::c05_extra::builder_case)?;
    run_proptest(ctx, 4, ctx.share(ctx.tier.pick(100_000, 1_500_000)), play_strategy(60, 28), case_json, run_case)
}

fn replay(v: &Value) -> Result<(), String> {
    if v.get("keys").is_some() {
        return keys_exhaustive(&mut Stats::new());
    }
    if let Some(b) = v.get("builder") {
        let c: crate::c05_extra::BuilderCase = serde_json::from_value(b.clone()).map_err(|e| e.to_string())?;
        return crate::c05_extra::builder_case(&c, &mut Stats::new());
    }
    run_case(&case_from_json(v)?, &mut Stats::new())
}

pub const C04: CheckDef = CheckDef {
    id: "C04",
    worker,
    replay,
    rule: "(a) exhaustive: all 768 + 16 + 8 + 2 = 794 keys through the four public key functions are non-zero and pairwise distinct. (b) along generated playouts the moved board's zobrist()/std hash equal those of the same position built from scratch. (c) transpositions: from visited positions, a1 b1 a2 b2 against every reordering the reference accepts and that reaches the same key -> boards ==, zobrist and std hash equal; reversible manoeuvres returning to earlier keys; pairs differing only in clocks -> equal and hash equal. (d) single-component variants built from scratch (piece moved / retyped / recoloured / removed, other side to move, each smaller rights subset, marker added / removed / other file) -> != AND hash different. (e) boards assembled by generated builder histories (rejected placements, removals) hash like the parser's board of the same position. (f) ThreeFold::add/get against a HashMap<reference key, count> along the same histories, also queried with from-scratch boards. Non-trivial = a transposition pair, a variant pair, or a repeated position; distinct by (key, path).",
    assumptions: &["hash inequality of different positions is checked on generated variants (a 64-bit collision by chance has probability 2^-64 per pair)", "oracle: refchess position key (placement, turn, rights, marker file)"],
    exhaustive: |_| false,
    uses_reference: true,
    workers: |_| 0,
    known_signature: no_signature,
    profile: "release",
};
