//! C20: per-thread tracing override is isolated from other threads.
//!
//! The harness owns the schedule: two fresh OS threads per case execute one operation at a
//! time on command, so exactly the generated interleaving happens; every operation touches
//! the one global atomic at most once, so operation-granularity interleavings are all
//! interleavings. After every step both threads report `is_enabled()`.
//!
//! Oracle: a model with the global flag and, per thread, the *set of admissible override
//! states*. What the property states is prescribed exactly (global ops set the global flag;
//! local ops set the caller's override; `restore` reinstates the saved state; nothing a
//! thread does changes another thread's override; a view is the override if there is one,
//! else the global flag). What it leaves open is admitted either way and resolved by
//! observation: whether a global op also sets the caller's own override, what
//! `local_toggle` does to a thread without override, and whether `local_take` clears the
//! override it returns.

use crate::fw::*;
use proptest::prelude::*;
use serde_json::{json, Value};
use std::sync::mpsc::{channel, Receiver, Sender};
use tracing_enabled as te;

#[derive(Clone, Copy, PartialEq, Eq, Debug, Hash, PartialOrd, Ord)]
enum Ov {
    Inherit,
    On,
    Off,
}

const OPS: [&str; 8] = ["enable", "disable", "toggle", "local_enable", "local_disable", "local_toggle", "local_take", "restore"];

enum Cmd {
    Op(u8),
    Query,
    Stop,
}

fn thread_main(rx: Receiver<Cmd>, tx: Sender<bool>) {
    let mut stack: Vec<te::LocalEnableState> = vec![];
    while let Ok(c) = rx.recv() {
        match c {
            Cmd::Op(op) => {
                match op {
                    0 => te::enable(),
                    1 => te::disable(),
                    2 => te::toggle(),
                    3 => te::local_enable(),
                    4 => te::local_disable(),
                    5 => te::local_toggle(),
                    6 => stack.push(te::local_take()),
                    _ => {
                        if let Some(s) = stack.pop() {
                            te::restore(s)
                        }
                    }
                }
                let _ = tx.send(true);
            }
            Cmd::Query => {
                let _ = tx.send(te::is_enabled());
            }
            Cmd::Stop => break,
        }
    }
}

fn consistent(p: Ov, obs: bool, global: bool) -> bool {
    match p {
        Ov::On => obs,
        Ov::Off => !obs,
        Ov::Inherit => obs == global,
    }
}

fn dedup(mut v: Vec<Ov>) -> Vec<Ov> {
    v.sort();
    v.dedup();
    v
}

/// run one schedule; each step is `thread * 8 + op`
fn run_schedule(steps: &[u8], st: &mut Stats) -> Result<(), String> {
    run_schedule_in(steps, st, false)
}

/// `fresh_process`: this process has not touched the crate yet, so nothing is reset (whatever
/// static state the crate keeps is in its initial condition) and the initial global setting is
/// read from a fresh thread instead of being forced
pub fn run_schedule_in(steps: &[u8], st: &mut Stats, fresh_process: bool) -> Result<(), String> {
    let mut global = true;
    if fresh_process {
        global = std::thread::spawn(te::is_enabled).join().map_err(|_| "observer thread panicked".to_string())?;
    } else {
        // known global start value, set from a throw-away thread (its local side effects die with it)
        std::thread::spawn(te::enable).join().map_err(|_| "reset thread panicked".to_string())?;
    }
    let mut chans = vec![];
    let mut handles = vec![];
    for _ in 0..2 {
        let (ctx_tx, crx) = channel::<Cmd>();
        let (rtx, rrx) = channel::<bool>();
        handles.push(std::thread::spawn(move || thread_main(crx, rtx)));
        chans.push((ctx_tx, rrx));
    }
    let mut local: [Vec<Ov>; 2] = [vec![Ov::Inherit], vec![Ov::Inherit]];
    let mut saved: [Vec<Vec<Ov>>; 2] = [vec![], vec![]];
    let mut acted = [false, false];
    let mut coexist = false;
    let result = (|| -> Result<(), String> {
        for (i, &s) in steps.iter().enumerate() {
            let (t, op) = ((s / 8) as usize % 2, s % 8);
            let other = 1 - t;
            chans[t].0.send(Cmd::Op(op)).map_err(|_| "thread gone")?;
            chans[t].1.recv().map_err(|_| format!("C20 thread {t} died executing {}", OPS[op as usize]))?;
            acted[t] = true;
            let before = local[t].clone();
            let tog = |o: Ov| match o {
                Ov::On => Ov::Off,
                Ov::Off => Ov::On,
                Ov::Inherit => Ov::Inherit,
            };
            match op {
                0 => {
                    global = true;
                    local[t] = dedup(before.iter().copied().chain([Ov::On]).collect());
                }
                1 => {
                    global = false;
                    local[t] = dedup(before.iter().copied().chain([Ov::Off]).collect());
                }
                2 => {
                    global = !global;
                    local[t] = dedup(before.iter().flat_map(|&o| [o, tog(o)]).collect());
                }
                3 => local[t] = vec![Ov::On],
                4 => local[t] = vec![Ov::Off],
                5 => {
                    local[t] = dedup(before.iter().flat_map(|&o| if o == Ov::Inherit { vec![Ov::Inherit, Ov::On, Ov::Off] } else { vec![tog(o)] }).collect());
                }
                6 => {
                    saved[t].push(before.clone());
                    local[t] = dedup(before.iter().copied().chain([Ov::Inherit]).collect());
                }
                _ => {
                    if let Some(sv) = saved[t].pop() {
                        local[t] = sv;
                    }
                }
            }
            if op <= 2 && local[other].iter().all(|o| *o != Ov::Inherit) {
                coexist = true;
            }
            // observe both threads
            for q in [t, other] {
                chans[q].0.send(Cmd::Query).map_err(|_| "thread gone")?;
                let obs = chans[q].1.recv().map_err(|_| "thread gone")?;
                let keep: Vec<Ov> = local[q].iter().copied().filter(|&p| consistent(p, obs, global)).collect();
                if keep.is_empty() {
                    let who = if q == t { "the acting thread" } else { "the OTHER thread" };
                    return Err(format!(
                        "C20 after step #{i} (thread {t}: {}), {who} (thread {q}) sees is_enabled() = {obs}; global setting is {global} and its admissible override states were {:?}: no state explains the view",
                        OPS[op as usize], local[q]
                    ));
                }
                local[q] = keep;
            }
        }
        Ok(())
    })();
    for (tx, _) in &chans {
        let _ = tx.send(Cmd::Stop);
    }
    for h in handles {
        let _ = h.join();
    }
    result?;
    st.eval(1);
    if acted[0] && acted[1] && coexist {
        st.nontrivial(digest(&steps.to_vec()));
        if st.want_sample() {
            st.sample(json!({"schedule": steps.iter().map(|s| format!("T{}:{}", s / 8, OPS[(s % 8) as usize])).collect::<Vec<_>>()}));
        }
    }
    Ok(())
}

/// free-running mode: B hammers global operations while A holds an override; A's view must
/// equal its override at every observation (an invariant that does not depend on the schedule)
fn free_running(rounds: u32, st: &mut Stats) -> Result<(), String> {
    use std::sync::atomic::{AtomicBool, Ordering};
    use std::sync::Arc;
    let stop = Arc::new(AtomicBool::new(false));
    let s2 = stop.clone();
    let hammer = std::thread::spawn(move || {
        let mut i = 0u32;
        while !s2.load(Ordering::Relaxed) {
            match i % 3 {
                0 => te::enable(),
                1 => te::disable(),
                _ => te::toggle(),
            }
            i = i.wrapping_add(1);
        }
    });
    let holder = std::thread::spawn(move || -> Result<u64, String> {
        let mut n = 0u64;
        for r in 0..rounds {
            te::local_enable();
            for _ in 0..200 {
                if !te::is_enabled() {
                    return Err(format!("C20 free-running round {r}: thread holds override ON but sees disabled while another thread changes the global setting"));
                }
                n += 1;
            }
            te::local_disable();
            for _ in 0..200 {
                if te::is_enabled() {
                    return Err(format!("C20 free-running round {r}: thread holds override OFF but sees enabled while another thread changes the global setting"));
                }
                n += 1;
            }
            let saved = te::local_take();
            te::local_enable();
            te::restore(saved);
            if te::is_enabled() {
                return Err(format!("C20 free-running round {r}: restore(take()) did not bring back override OFF"));
            }
            n += 1;
        }
        Ok(n)
    });
    let r = holder.join().map_err(|_| "holder panicked".to_string());
    stop.store(true, Ordering::Relaxed);
    let _ = hammer.join();
    let n = r??;
    st.eval(n);
    st.class_n("free-running observations under real parallelism", n);
    Ok(())
}

fn worker(ctx: &WorkerCtx) -> Result<(), Fail> {
    let f = |steps: &[u8], d: String| Fail { case: json!({"schedule": steps}), detail: d };
    {
        let mut st = ctx.stats.borrow_mut();
        st.sample_gap = 300;
        let max_len = ctx.tier.pick(4u32, 5u32);
        // all schedules of length <= max_len (16 choices per step), split over workers
        let mut idx = 0u64;
        for len in 0..=max_len {
            let total = 16u64.pow(len);
            for code in 0..total {
                idx += 1;
                if !ctx.mine(idx) {
                    continue;
                }
                let steps: Vec<u8> = (0..len).map(|k| ((code >> (4 * k)) & 15) as u8).collect();
                guarded(|| run_schedule(&steps, &mut st)).unwrap_or_else(Err).map_err(|d| f(&steps, d))?;
            }
        }
        st.class(&format!("all schedules of length <= {max_len} (this worker's share)"));
        // the same schedules up to length max_len - 1, each in a process of its own: the crate's
        // static state (the global flag, and whatever else an implementation keeps) is then in
        // its initial condition, which no in-process reset can guarantee
        let exe = std::env::current_exe().map_err(|e| Fail { case: json!({"schedule": []}), detail: format!("current_exe: {e}") })?;
        let mut idx = 0u64;
        let mut fresh = 0u64;
        for len in 1..max_len {
            for code in 0..16u64.pow(len) {
                idx += 1;
                if !ctx.mine(idx) {
                    continue;
                }
                let steps: Vec<u8> = (0..len).map(|k| ((code >> (4 * k)) & 15) as u8).collect();
                let hex: String = steps.iter().map(|b| format!("{b:02x}")).collect();
                let out = std::process::Command::new(&exe).args(["c20-fresh", &hex]).output();
                match out {
                    Ok(o) if o.status.code() == Some(1) => {
                        let d = String::from_utf8_lossy(&o.stdout).trim().to_string();
                        return Err(Fail { case: json!({"schedule": steps, "fresh_process": true}), detail: format!("{d} [schedule run in a process of its own]") });
                    }
                    Ok(o) if o.status.success() => fresh += 1,
                    _ => st.class("fresh-process schedule: child did not run (no verdict)"),
                }
            }
        }
        st.eval(fresh);
        st.class_n("schedules run in a process of their own", fresh);
        if ctx.idx == 0 {
            guarded(|| free_running(ctx.tier.pick(300, 3000), &mut st)).unwrap_or_else(Err).map_err(|d| Fail { case: json!({"free_running": ctx.tier.pick(300, 3000)}), detail: d })?;
        }
    }
    let strat = prop::collection::vec(0u8..16, 5..40);
    run_proptest(ctx, 20, ctx.share(ctx.tier.pick(16_000, 300_000)), strat, |s| json!({"schedule": s}), |s, st| run_schedule(s, st))
}

fn replay(v: &Value) -> Result<(), String> {
    if let Some(r) = v.get("free_running") {
        return free_running(r.as_u64().unwrap_or(300) as u32, &mut Stats::new());
    }
    let steps: Vec<u8> = v["schedule"].as_array().ok_or("schedule")?.iter().map(|x| x.as_u64().unwrap_or(0) as u8).collect();
    // a replay runs in a process of its own anyway
    run_schedule_in(&steps, &mut Stats::new(), v.get("fresh_process").and_then(|x| x.as_bool()).unwrap_or(false))
}

pub const C20: CheckDef = CheckDef {
    id: "C20",
    worker,
    replay,
    rule: "schedule = sequence of (thread in {0,1}, op in {enable, disable, toggle, local_enable, local_disable, local_toggle, local_take, restore}); ALL schedules of length <= 4 (quick) / <= 5 (thorough) plus proptest schedules of length 5..40, executed on two fresh OS threads under a harness-owned interleaving with is_enabled() observed on both threads after every step, against a model of the global flag and per-thread admissible override states; the schedules of length <= 3 (quick) / <= 4 (thorough) also each in a process of its own (static state of the crate in its initial condition); plus a free-running mode under real parallelism whose invariant (view == held override; restore(take()) round trip) does not depend on the schedule. Non-trivial = both threads act and a global change happens while the other thread holds an override; distinct by schedule.",
    assumptions: &[
        "each operation performs at most one access to the single global atomic, so operation-granularity interleavings are all interleavings (as the property states)",
        "unspecified side effects (global op also setting the caller's own override; local_toggle without override; local_take clearing the override) are admitted either way and resolved by observation, so a change confined to them is not reported",
        "the process-global flag is reset at the top of every case; threads are fresh per case",
    ],
    exhaustive: |_| true,
    uses_reference: false,
    workers: |_| 0,
    known_signature: no_signature,
    profile: "release",
};
