//! C10: the move iterator's size and filtering contracts, against a set model.
//!
//! Model: R = reference legal moves not yet yielded or removed (restricted to the
//! generation mask for a `legals_masked` start), M = current mask; visible = {m in R |
//! m.dest in M}. Order is unspecified and never compared.
//!
//! Two recorded findings are handled on the *history*, never as a blanket exemption:
//!  (i)  `remove_move` with a promotion move also removes the three sibling promotions: the
//!       model forks into "removed exactly mv" (what the property says) and "removed all
//!       four"; observations prune the forks. The search only counts the case as an
//!       exclusion when the strict fork has died; in strict mode (replay of the recorded
//!       reproducer, `avoid` cases) there is no fork.
//!  (ii) a mask change or removal issued while 1-3 promotions of a destination have been
//!       emitted desynchronises the promotion cursor: from that op on the case is tainted
//!       and a divergence is counted as an exclusion. Before the taint any divergence is a
//!       violation.
//! `avoid = true` cases skip exactly those two situations by construction so that long
//! untainted histories are explored (this is also how the engine drives the iterator).

use crate::conv::*;
use crate::fw::*;
use crate::gen::*;
use crate::play::apply_clocks;
use chess_bitboard::BitBoard;
use proptest::prelude::*;
use refchess::{Mv, Pos, C, P};
use serde::{Deserialize, Serialize};
use serde_json::{json, Value};

#[derive(Clone, Debug, Serialize, Deserialize, PartialEq)]
pub enum Op {
    Next,
    Len,
    SetMask(u8, u64),
    Remove(u8, u64),
    /// (selector kind: 0 remaining, 1 yielded, 2 any triple; index)
    RemoveMove(u8, u16),
    CloneContinue,
    Count,
    /// every provided Iterator method on clones, against the sequence repeated next() gives
    Methods,
}

#[derive(Clone, Debug, Serialize, Deserialize, PartialEq)]
pub struct IterCase {
    pub play: PlayCase,
    pub start_mask: Option<(u8, u64)>,
    pub ops: Vec<Op>,
    pub avoid: bool,
    pub cover: (u8, u64),
    /// start from `king_legals(side to move)` instead of `legals()` / `legals_masked(m)`
    #[serde(default)]
    pub king_only: bool,
}

fn mask_of(kind: u8, raw: u64, pos: &Pos, prev: u64) -> u64 {
    let enemy = (0..64u8).filter(|&s| matches!(pos.sq[s as usize], Some((c, _)) if c != pos.turn)).fold(0u64, |a, s| a | 1u64 << s);
    let ep_sq = pos.ep.map(|f| 1u64 << (if pos.turn == C::White { 40 + f } else { 16 + f })).unwrap_or(0);
    let last_rank = if pos.turn == C::White { 0xffu64 << 56 } else { 0xff };
    match kind % 12 {
        0 => u64::MAX,
        1 => enemy,
        2 => 0x0101010101010101u64 << (raw % 8),
        3 => 0xffu64 << (8 * (raw % 8)),
        4 => raw,
        5 => !prev,
        6 => ep_sq,
        7 => !ep_sq,
        8 => raw & raw.rotate_left(17),
        9 => enemy | (0x0101010101010101u64 << (raw % 8)),
        10 => last_rank & raw,
        _ => !enemy,
    }
}

#[derive(Clone)]
struct Cand {
    r: Vec<Mv>,
    strict: bool,
}

fn visible(r: &[Mv], m: u64) -> Vec<Mv> {
    r.iter().copied().filter(|x| m >> x.to & 1 == 1).collect()
}

pub struct Outcome {
    pub tainted_mid: bool,
    pub strict_dead: bool,
}

/// Err(detail) = divergence that no admissible model explains (before any taint).
/// Ok(outcome)  = consistent, possibly only through a recorded finding.
fn interpret(c: &IterCase, strict_only: bool, st: &mut Stats) -> Result<Outcome, String> {
    let Some(root) = build_root(&c.play.root) else {
        if !st.frozen {
            st.rejected += 1;
        }
        return Ok(Outcome { tainted_mid: false, strict_dead: false });
    };
    let mut pos = apply_clocks(root, &c.play);
    for &(bias, idx) in &c.play.choices {
        let l = pos.legal();
        if l.is_empty() {
            break;
        }
        pos = pos.apply(pick(&pos, &l, bias, idx));
    }
    let board = to_board(&pos)?;
    let king_only = c.king_only && c.start_mask.is_none();
    let all: Vec<Mv> = if king_only {
        let k = pos.king(pos.turn);
        pos.legal().into_iter().filter(|m| Some(m.from) == k).collect()
    } else {
        pos.legal()
    };
    let fen = pos.fen();
    let universe: u64 = match c.start_mask {
        Some((k, raw)) => mask_of(k, raw, &pos, u64::MAX),
        None => u64::MAX,
    };
    let mut it = match c.start_mask {
        Some(_) => board.legals_masked(BitBoard::from_u64(universe)),
        None if king_only => board.king_legals(board.turn()),
        None => board.legals(),
    };
    let mut mask = universe;
    let mut cands = vec![Cand { r: visible(&all, universe), strict: true }];
    let mut yielded: Vec<Mv> = vec![];
    let mut trace: Vec<String> = vec![match c.start_mask {
        Some(_) => format!("legals_masked({universe:#x})"),
        None if king_only => "king_legals(side to move)".to_string(),
        None => "legals()".to_string(),
    }];
    let mut tainted_mid = false;
    let mut fork_overflow = false;
    let mut post_next = false;
    let mut mutated_after_next = false;
    let mut classes: Vec<&'static str> = vec![];

    // is some destination partially emitted (1-3 of its promotions yielded, others pending)?
    let mid = |cands: &[Cand], yielded: &[Mv]| -> bool {
        cands.iter().any(|cd| cd.r.iter().any(|m| m.promo.is_some() && yielded.iter().any(|y| y.from == m.from && y.to == m.to && y.promo.is_some())))
    };
    // the (source, destination) pairs whose promotions are partially emitted
    let in_progress = |cands: &[Cand], yielded: &[Mv]| -> Vec<(u8, u8)> {
        let mut v: Vec<(u8, u8)> = vec![];
        for cd in cands {
            for m in &cd.r {
                if m.promo.is_some() && yielded.iter().any(|y| y.from == m.from && y.to == m.to && y.promo.is_some()) && !v.contains(&(m.from, m.to)) {
                    v.push((m.from, m.to));
                }
            }
        }
        v
    };
    macro_rules! diverge {
        ($($arg:tt)*) => {{
            let d = format!($($arg)*);
            if tainted_mid && !strict_only {
                if !st.frozen { st.excluded += 1; st.class("excluded: divergence after a mask/removal op issued mid-promotion (recorded finding ii)"); }
                return Ok(Outcome { tainted_mid: true, strict_dead: false });
            }
            if fork_overflow && !strict_only {
                // more combinations of "removed exactly the argument" / "removed all four" than the
                // model tracks: the explanation by recorded finding (i) may be among the dropped ones
                if !st.frozen { st.excluded += 1; st.class("excluded: more forks of recorded finding (i) than the model tracks"); }
                return Ok(Outcome { tainted_mid: false, strict_dead: true });
            }
            return Err(format!("C10 at `{fen}` ops [{}]: {d}", trace.join(", ")));
        }};
    }
    let n_ops = c.ops.len();
    for (i, op) in c.ops.iter().enumerate() {
        match op {
            Op::Next => {
                let got = it.next().map(from_cm);
                trace.push(format!("next->{}", got.map_or("None".to_string(), |m| m.to_string())));
                let before = cands.clone();
                cands.retain_mut(|cd| {
                    let vis = visible(&cd.r, mask);
                    match got {
                        None => vis.is_empty(),
                        Some(m) => {
                            if vis.contains(&m) {
                                cd.r.retain(|x| *x != m);
                                true
                            } else {
                                false
                            }
                        }
                    }
                });
                if cands.is_empty() {
                    let vis = visible(&before[0].r, mask);
                    match got {
                        None => diverge!("next() returned None but {} move(s) are still due under the mask: [{}]", vis.len(), fmt_moves(&vis)),
                        Some(m) => diverge!("next() yielded {m}, which is not among the pending moves under the mask [{}]{}", fmt_moves(&vis), if yielded.contains(&m) { " (already yielded once)" } else { "" }),
                    }
                }
                if let Some(m) = got {
                    yielded.push(m);
                    post_next = true;
                }
            }
            Op::Len => {
                let (l, e, sh) = (it.len(), it.is_empty(), it.size_hint());
                let exact = ExactSizeIterator::len(&it);
                trace.push(format!("len->{l}"));
                let before = cands.clone();
                cands.retain(|cd| {
                    let n = visible(&cd.r, mask).len();
                    l == n && e == (n == 0) && sh == (n, Some(n)) && exact == n
                });
                if cands.is_empty() {
                    let n = visible(&before[0].r, mask).len();
                    diverge!("len()={l} is_empty()={e} size_hint()={sh:?} but {n} move(s) are still due");
                }
            }
            Op::SetMask(k, raw) => {
                if mid(&cands, &yielded) {
                    if c.avoid {
                        continue;
                    }
                    tainted_mid = true;
                    classes.push("mask change issued mid-promotion");
                }
                let m = mask_of(*k, *raw, &pos, mask) & universe;
                it.set_mask(BitBoard::from_u64(m));
                mask = m;
                trace.push(format!("set_mask({m:#x})"));
                if post_next {
                    mutated_after_next = true;
                }
            }
            Op::Remove(k, raw) => {
                let m = mask_of(*k, *raw, &pos, mask);
                // recorded finding (ii) concerns the destination whose promotions are being handed
                // out: removing other destinations mid-way is ordinary and fully checked
                if in_progress(&cands, &yielded).iter().any(|(_, to)| m >> to & 1 == 1) {
                    if c.avoid {
                        continue;
                    }
                    tainted_mid = true;
                    classes.push("removal issued mid-promotion");
                } else if mid(&cands, &yielded) {
                    classes.push("removal of other destinations while a promotion destination is partially emitted");
                }
                it.remove(BitBoard::from_u64(m));
                for cd in cands.iter_mut() {
                    cd.r.retain(|x| m >> x.to & 1 == 0);
                }
                trace.push(format!("remove({m:#x})"));
                if post_next {
                    mutated_after_next = true;
                }
            }
            Op::RemoveMove(sel, idx) => {
                let pending = &cands[0].r;
                let mv = match sel % 3 {
                    0 if !pending.is_empty() => pending[(*idx as usize * pending.len()) >> 16],
                    1 if !yielded.is_empty() => yielded[(*idx as usize * yielded.len()) >> 16],
                    _ if !all.is_empty() && sel % 2 == 0 => all[(*idx as usize * all.len()) >> 16],
                    _ => Mv { from: (*idx % 64) as u8, to: (*idx / 64 % 64) as u8, promo: if idx & 0x8000 != 0 { Some(P::Queen) } else { None } },
                };
                if in_progress(&cands, &yielded).contains(&(mv.from, mv.to)) {
                    if c.avoid {
                        continue;
                    }
                    tainted_mid = true;
                    classes.push("removal issued mid-promotion");
                } else if mid(&cands, &yielded) {
                    classes.push("remove_move of another move while a promotion destination is partially emitted");
                }
                // recorded finding (i): remove_move ignores the promotion piece of its argument, so any
                // argument whose source and destination are those of pending promotions (whatever its
                // piece field says, including none) makes all of them disappear
                let hits_promotions = mv.promo.is_some() || cands.iter().any(|cd| cd.r.iter().any(|x| x.from == mv.from && x.to == mv.to && x.promo.is_some()));
                if hits_promotions && c.avoid {
                    if !st.frozen {
                        st.class("skipped by construction: remove_move with a promotion argument (recorded finding i)");
                    }
                    continue;
                }
                let was_pending_everywhere = cands.iter().all(|cd| cd.r.contains(&mv));
                let ret = it.remove_move(to_cm(mv));
                trace.push(format!("remove_move({mv})->{ret}"));
                let mut next_cands = vec![];
                for cd in &cands {
                    let mut a = cd.clone();
                    a.r.retain(|x| *x != mv);
                    next_cands.push(a);
                    if hits_promotions && !strict_only {
                        // recorded finding (i): all four promotions of that destination disappear
                        let mut b = cd.clone();
                        b.r.retain(|x| !(x.from == mv.from && x.to == mv.to));
                        b.strict = false;
                        if b.r != next_cands.last().unwrap().r {
                            next_cands.push(b);
                        }
                    }
                }
                // different fork histories often meet in the same remaining set: keep one of each
                // (a strict one if there is one)
                next_cands.sort_by(|a, b| a.r.cmp(&b.r).then(b.strict.cmp(&a.strict)));
                next_cands.dedup_by(|b, a| a.r == b.r);
                if next_cands.len() > 512 {
                    next_cands.truncate(512);
                    fork_overflow = true;
                }
                cands = next_cands;
                // the boolean result of remove_move is documented nowhere and the property does not
                // mention it: it is recorded in the trace but not asserted
                let _ = was_pending_everywhere;
                if hits_promotions {
                    classes.push("remove_move aimed at a promotion destination");
                }
                if post_next {
                    mutated_after_next = true;
                }
            }
            Op::CloneContinue => {
                let cl = it.clone();
                if cl.len() != it.len() {
                    diverge!("clone reports len {} but the original {}", cl.len(), it.len());
                }
                it = cl;
                trace.push("clone".into());
            }
            Op::Methods => {
                // the iterator's own next()-sequence from here is the model: whatever else the type
                // overrides (count, last, nth, fold, ...) must agree with it. Not applicable once a
                // mid-promotion op has desynchronised the cursor (recorded finding ii).
                if tainted_mid {
                    continue;
                }
                let seq: Vec<chess_movegen::ChessMove> = it.clone().take(400).collect();
                if let Err(d) = crate::itermodel::fwd_consumers("C10 MoveGen", "a clone of the iterator at this point", &it, &seq.iter().copied(), true) {
                    diverge!("{d}");
                }
                trace.push("methods".into());
                classes.push("all provided Iterator methods compared with repeated next()");
            }
            Op::Count => {
                let n = it.clone().count();
                trace.push(format!("count->{n}"));
                let before = cands.clone();
                cands.retain(|cd| visible(&cd.r, mask).len() == n);
                if cands.is_empty() {
                    diverge!("count()={n} but {} move(s) are still due", visible(&before[0].r, mask).len());
                }
            }
        }
        let _ = (i, n_ops);
    }
    // final cover: successive masks whose union is the universe must yield every remaining
    // move exactly once
    if !(c.avoid && mid(&cands, &yielded)) {
        if mid(&cands, &yielded) {
            tainted_mid = true;
        }
        let m1 = mask_of(c.cover.0, c.cover.1, &pos, mask) & universe;
        let mut got: Vec<Mv> = vec![];
        for m in [m1, !m1 & universe] {
            it.set_mask(BitBoard::from_u64(m));
            let mut guard = 0;
            while let Some(x) = it.next() {
                got.push(from_cm(x));
                guard += 1;
                if guard > 400 {
                    diverge!("final cover: iterator yields more than 400 moves (does not terminate)");
                }
            }
        }
        trace.push(format!("cover({m1:#x}, complement)->{} moves", got.len()));
        got.sort();
        let before = cands.clone();
        cands.retain(|cd| {
            let mut want = cd.r.clone();
            want.sort();
            want == got
        });
        if cands.is_empty() {
            let mut want = before[0].r.clone();
            want.sort();
            let missing: Vec<Mv> = want.iter().copied().filter(|m| !got.contains(m)).collect();
            let extra: Vec<Mv> = got.iter().copied().filter(|m| !want.contains(m)).collect();
            let mut dups = vec![];
            for w in got.windows(2) {
                if w[0] == w[1] {
                    dups.push(w[0]);
                }
            }
            diverge!("final cover under successive masks: never yielded [{}], yielded but not due [{}], yielded twice [{}]", fmt_moves(&missing), fmt_moves(&extra), fmt_moves(&dups));
        }
    }
    let strict_dead = !cands.iter().any(|cd| cd.strict);
    if !st.frozen {
        st.eval(1);
        for cl in &classes {
            st.class(cl);
        }
        if strict_dead {
            st.excluded += 1;
            st.class("excluded: only the 'remove_move drops all four promotions' fork explains the run (recorded finding i)");
        }
        let sources = {
            let mut s: Vec<u8> = all.iter().map(|m| m.from).collect();
            s.dedup();
            s.len()
        };
        if king_only {
            st.class("king_legals start");
        }
        if mutated_after_next && (sources >= 2 || (king_only && all.len() >= 2)) {
            if pos.ep.is_some() && all.iter().any(|m| pos.kind(*m).en_passant) {
                st.class("en-passant entry present");
            }
            if all.iter().any(|m| m.promo.is_some()) {
                st.class("promotions present");
            }
            if c.start_mask.is_some() {
                st.class("legals_masked start");
            }
            if st.nontrivial(digest(&(fen.clone(), trace.clone()))) && st.want_sample() {
                st.sample(json!({"fen": fen, "ops": trace, "avoid": c.avoid}));
            }
        }
    }
    Ok(Outcome { tainted_mid, strict_dead })
}

fn mask_spec() -> impl Strategy<Value = (u8, u64)> {
    (0u8..12, any::<u64>())
}

fn op_strategy() -> impl Strategy<Value = Op> {
    prop_oneof![
        8 => Just(Op::Next),
        3 => Just(Op::Len),
        3 => mask_spec().prop_map(|(k, r)| Op::SetMask(k, r)),
        2 => mask_spec().prop_map(|(k, r)| Op::Remove(k, r)),
        2 => (0u8..6, any::<u16>()).prop_map(|(s, i)| Op::RemoveMove(s, i)),
        1 => Just(Op::CloneContinue),
        1 => Just(Op::Count),
        1 => Just(Op::Methods),
    ]
}

pub fn strategy() -> impl Strategy<Value = IterCase> {
    (
        play_strategy(40, 28),
        prop_oneof![3 => Just(None), 1 => mask_spec().prop_map(Some)],
        prop::collection::vec(op_strategy(), 0..40),
        prop::bool::weighted(0.6),
        mask_spec(),
        prop::bool::weighted(0.12),
    )
        .prop_map(|(play, start_mask, ops, avoid, cover, king_only)| IterCase { play, start_mask, ops, avoid, cover, king_only })
}

fn case_json(c: &IterCase) -> Value {
    let mut v = serde_json::to_value(c).unwrap();
    v["play"] = crate::play::case_json(&c.play);
    v
}

fn case_from(v: &Value) -> Result<IterCase, String> {
    let mut v = v.clone();
    let play = crate::play::case_from_json(&v["play"])?;
    v["play"] = serde_json::to_value(&play).unwrap();
    serde_json::from_value(v).map_err(|e| format!("bad case: {e}"))
}

fn worker(ctx: &WorkerCtx) -> Result<(), Fail> {
    run_proptest(ctx, 10, ctx.share(ctx.tier.pick(600_000, 15_000_000)), strategy(), case_json, |c, st| interpret(c, false, st).map(|_| ()))
}

/// replay is strict: no fork for finding (i), and a divergence after a mid-promotion op is
/// reported too (this is what makes the recorded reproducers fail while the defects exist)
fn replay(v: &Value) -> Result<(), String> {
    let c = case_from(v)?;
    let mut st = Stats::new();
    st.frozen = false;
    match interpret(&c, true, &mut st) {
        Err(d) => Err(d),
        Ok(o) => {
            if st.excluded > 0 || o.strict_dead {
                Err("C10 divergence attributable to a recorded finding (strict replay)".into())
            } else {
                Ok(())
            }
        }
    }
}

pub const C10: CheckDef = CheckDef {
    id: "C10",
    worker,
    replay,
    rule: "case = (position reached by a generated playout, optional legals_masked start mask (or, in 12% of the cases, a king_legals(side to move) start, whose universe is the king's legal moves), list of ops over {next, len/is_empty/size_hint, set_mask, remove, remove_move (pending / already yielded / arbitrary move), clone-and-continue, count, all provided Iterator methods on a clone vs its own next()-sequence}, final cover under two complementary masks); masks are unions/intersections of {all, enemy pieces, a file, a rank, random, complement of the previous mask, the en-passant square and its complement, last rank}; after a legals_masked(m) start later masks are intersected with m. Oracle: set model R/M (see harness/vcheck/src/c10.rs). 60% of cases avoid by construction the two recorded findings (op while a promotion destination is partially emitted; remove_move with a promotion argument); in the rest a divergence counts as an exclusion only if it follows such an op (ii) or is explained by the sibling-promotion fork (i). Non-trivial = a mask change or removal after >= 1 next on a position with >= 2 source squares; distinct by (FEN, op trace).",
    assumptions: &[
        "order of yielded moves is unspecified and never compared",
        "what widening a generation-time mask should reveal is not stated by the property: after legals_masked(m) every later mask is a subset of m",
        "remove_move's boolean result is unspecified and not asserted",
        "oracle: refchess legal-move set",
    ],
    exhaustive: |_| false,
    uses_reference: true,
    workers: |_| 0,
    known_signature: no_signature,
    profile: "release",
};
