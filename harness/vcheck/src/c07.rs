//! C07: no sequence of safe public calls on an accepted position traps. Runs in the
//! `checked` profile (release optimisation + debug assertions + overflow checks), where
//! std's unsafe-precondition checks, arrayvec's capacity assertion, the repository's own
//! debug_assert!s, bounds checks and arithmetic overflow are deterministic panics. The
//! oracle is "no panic, no abort, no signal"; there is no semantic oracle here.

use crate::c06::BOp;
use crate::conv::*;
use crate::fw::*;
use crate::gen::*;
use crate::obs::{run_search, SearchError};
use chess_bitboard as bb;
use chess_bitboard::BitBoard;
use chess_engine::ThreeFold;
use chess_movegen::{Board, ChessMove};
use proptest::prelude::*;
use refchess::{Pos, C, P};
use serde::{Deserialize, Serialize};
use serde_json::json;

#[derive(Clone, Debug, Serialize, Deserialize, PartialEq)]
pub enum Cons {
    Standard,
    Root(Root, u16, u16),
    /// free placement written straight into FEN text (pawns may stand on back ranks); used when accepted
    Free { wk: u8, bk: u8, pieces: Vec<(u8, u8)>, black: bool, castle: u8, ep: Option<u8>, half: u16, full: u16 },
    Builder(u8, u8, Vec<BOp>),
    /// FEN text handed to the parser as it is; used when accepted (reachable or not)
    Text(String),
}

#[derive(Clone, Debug, Serialize, Deserialize, PartialEq)]
pub enum It {
    Next,
    Len,
    SetMask(u64),
    Remove(u64),
    RemoveMove(u16),
    Clone,
    Count,
    Nth(u8),
    Last,
}

#[derive(Clone, Debug, Serialize, Deserialize, PartialEq)]
pub enum Op7 {
    Construct(Cons),
    Legal(u16, u8),
    Any(u8, u8, u8),
    Iter(Option<u64>, Vec<It>),
    KingLegals,
    Query,
    Format,
    Perft(u8),
    /// perft_test(3): three plies of the unchecked make-move path (directed families only)
    Perft3,
    Search(u16, bool),
    LongSearch(u8),
    TfAdd(u16),
    Book(Vec<u16>),
    BitIter(u8, u64),
    Reparse,
}

#[derive(Clone, Debug, Serialize, Deserialize, PartialEq)]
pub struct Script {
    pub ops: Vec<Op7>,
}

fn construct(c: &Cons) -> Option<Board> {
    match c {
        Cons::Standard => Some(Board::standard()),
        Cons::Text(t) => t.parse().ok(),
        Cons::Root(r, half, full) => {
            let mut p = build_root(r)?;
            p.half = (*half).min(9999) as u32;
            p.full = (*full).min(9999) as u32;
            if p.ep.is_some() {
                p.half = 0;
            }
            p.fen().parse().ok()
        }
        Cons::Free { wk, bk, pieces, black, castle, ep, half, full } => {
            let mut p = Pos::empty();
            let (wk, bk) = (wk % 64, bk % 64);
            if wk == bk {
                return None;
            }
            p.sq[wk as usize] = Some((C::White, P::King));
            p.sq[bk as usize] = Some((C::Black, P::King));
            for &(code, s) in pieces {
                let s = (s % 64) as usize;
                if p.sq[s].is_some() {
                    continue;
                }
                let c = if code & 1 == 0 { C::White } else { C::Black };
                if p.count(c) >= 16 {
                    continue;
                }
                let k = [P::Pawn, P::Pawn, P::Knight, P::Bishop, P::Rook, P::Queen, P::Pawn, P::Rook][((code >> 1) % 8) as usize];
                p.sq[s] = Some((c, k));
            }
            p.turn = if *black { C::Black } else { C::White };
            for i in 0..4 {
                p.castle[i] = castle & (1 << i) != 0;
            }
            p.ep = ep.map(|f| f % 8);
            p.half = (*half).min(9999) as u32;
            p.full = (*full).min(9999) as u32;
            p.fen().parse().ok()
        }
        Cons::Builder(wk, bk, ops) => {
            let mut b = Board::builder();
            let _ = b.place(sq(wk % 64), bb::Color::White, bb::Piece::King);
            let _ = b.place(sq(bk % 64), bb::Color::Black, bb::Piece::King);
            for op in ops {
                match op {
                    BOp::Place(code, s) => {
                        let c = if code & 1 == 0 { bb::Color::White } else { bb::Color::Black };
                        let p = [bb::Piece::Pawn, bb::Piece::Pawn, bb::Piece::Knight, bb::Piece::Bishop, bb::Piece::Rook, bb::Piece::Queen][((code >> 1) % 6) as usize];
                        let _ = b.place(sq(*s % 64), c, p);
                    }
                    BOp::Remove(s) => {
                        b.remove(sq(*s % 64));
                    }
                    BOp::Turn(x) => {
                        b.turn(if *x { bb::Color::Black } else { bb::Color::White });
                    }
                    BOp::Ep(f) => {
                        b.enpassant(f.map(|f| bb::File::from_u8(f % 8).unwrap()));
                    }
                    BOp::Half(x) => {
                        b.half_move_clock(*x);
                    }
                    BOp::Full(x) => {
                        b.full_move_clock(*x);
                    }
                }
            }
            b.build().ok()
        }
    }
}

fn fmt_everything(b: &Board, tf: &ThreeFold) -> usize {
    let mut n = format!("{b} {b:?} {b:#?}").len();
    let r = b.raw();
    n += format!("{r:?} {r:#?} {r:b} {r:x} {r:X}").len();
    for c in bb::Color::all() {
        let x = b[c];
        n += format!("{x:?} {x:b} {x:x} {x:X} {c:?}").len();
    }
    for p in bb::Piece::all() {
        n += format!("{:?} {p:?}", b[p]).len();
    }
    for m in b.legals().take(6) {
        n += format!("{m} {m:?}").len();
    }
    n += format!("{tf:?}").len();
    n += format!("{:?} {:?}", b.state(), b.turn()).len();
    n
}

fn run_script(s: &Script, st: &mut Stats) -> Result<(), String> {
    let mut b = Board::standard();
    let mut tf = ThreeFold::new();
    let mut trace: Vec<String> = vec![];
    let mut fams = std::collections::BTreeSet::new();
    let mut non_start = false;
    for op in &s.ops {
        let fen_before = guarded(|| b.to_string()).map_err(|p| format!("C07 Display of the current board: {p}"))?;
        let desc = format!("{op:?}");
        let desc: String = desc.chars().take(160).collect();
        trace.push(desc.clone());
        let r = guarded(|| -> Result<(), String> {
            match op {
                Op7::Construct(c) => {
                    if let Some(nb) = construct(c) {
                        b = nb;
                        tf = ThreeFold::new();
                        non_start = true;
                    }
                    fams.insert("construct");
                }
                Op7::Legal(idx, how) => {
                    let ms: Vec<ChessMove> = b.legals().collect();
                    if !ms.is_empty() {
                        let m = ms[(*idx as usize * ms.len()) >> 16];
                        match how % 3 {
                            0 => b = b.move_new(m).ok_or("move_new refused a generated move")?,
                            1 => {
                                if !b.move_mut(m) {
                                    return Err("move_mut refused a generated move".into());
                                }
                            }
                            _ => {
                                let mut o = Board::standard();
                                if !b.move_into(m, &mut o) {
                                    return Err("move_into refused a generated move".into());
                                }
                                b = o;
                            }
                        }
                        let _ = tf.add(b);
                        non_start = true;
                    }
                    fams.insert("move");
                }
                Op7::Any(f, t, p) => {
                    let m = ChessMove { source: sq(f % 64), dest: sq(t % 64), piece: [None, Some(bb::PromotionPiece::Queen), Some(bb::PromotionPiece::Knight), Some(bb::PromotionPiece::Rook), Some(bb::PromotionPiece::Bishop)][(*p % 5) as usize] };
                    let _ = b.is_legal(m);
                    if let Some(nb) = b.move_new(m) {
                        b = nb;
                        let _ = tf.add(b);
                    }
                    fams.insert("move");
                }
                Op7::Iter(mask, ops) => {
                    let mut it = match mask {
                        Some(m) => b.legals_masked(BitBoard::from_u64(*m)),
                        None => b.legals(),
                    };
                    let all: Vec<ChessMove> = b.legals().collect();
                    for o in ops {
                        match o {
                            It::Next => {
                                let _ = it.next();
                            }
                            It::Len => {
                                let _ = (it.len(), it.is_empty(), it.size_hint());
                            }
                            It::SetMask(m) => it.set_mask(BitBoard::from_u64(*m)),
                            It::Remove(m) => it.remove(BitBoard::from_u64(*m)),
                            It::RemoveMove(i) => {
                                if !all.is_empty() {
                                    let _ = it.remove_move(all[(*i as usize * all.len()) >> 16]);
                                }
                            }
                            It::Clone => {
                                let c = it.clone();
                                let _ = c.count();
                            }
                            It::Count => {
                                let _ = it.clone().count();
                            }
                            It::Nth(n) => {
                                let _ = it.nth(*n as usize);
                            }
                            It::Last => {
                                let _ = it.clone().last();
                            }
                        }
                    }
                    let _ = it.last();
                    fams.insert("iterate");
                }
                Op7::KingLegals => {
                    let _ = b.king_legals(bb::Color::White).len();
                    let _ = b.king_legals(bb::Color::Black).count();
                    fams.insert("generate");
                }
                Op7::Query => {
                    let _ = (b.in_check(), b.state(), b.zobrist(), std_hash(&b), b.king_sq(bb::Color::White), b.king_sq(bb::Color::Black), b.half_move_clock(), b.full_move_clock());
                    for c in bb::Color::all() {
                        let _ = b[c].count();
                    }
                    fams.insert("query");
                }
                Op7::Format => {
                    let _ = fmt_everything(&b, &tf);
                    fams.insert("print");
                }
                Op7::Perft(d) => {
                    let _ = b.perft_test(1 + (*d % 2) as usize);
                    fams.insert("generate");
                }
                Op7::Perft3 => {
                    let _ = b.perft_test(3);
                    fams.insert("generate");
                }
                Op7::Search(k, positional) => {
                    search(&b, &tf, *k as u64, *positional)?;
                    if *k % 16 == 0 {
                        // the engine's own wall-clock timeout with a budget that expires at once or
                        // within a millisecond (the oracle does not depend on when it fires)
                        let t = chess_engine::DurationTimeout::new(std::time::Duration::from_micros([0u64, 1, 900, 2500][(*k as usize / 16) % 4]));
                        let mut e = chess_engine::Engine::default();
                        e.positional = *positional;
                        let (mv, sc) = e.search(&b, &tf, &t);
                        let _ = format!("{sc:?}");
                        if let Some(m) = mv {
                            if !b.is_legal(m) {
                                return Err(format!("search under DurationTimeout returned {m}, which the board calls illegal"));
                            }
                        }
                    }
                    fams.insert("search");
                }
                Op7::LongSearch(sel) => {
                    // long budgets only where passes are cheap: terminal or clock-drawn roots
                    let terminal = b.legals().is_empty();
                    let drawn = b.half_move_clock() >= 98;
                    if terminal {
                        search(&b, &tf, 70_000 + *sel as u64, false)?;
                    } else if drawn && b.raw().all().count() <= 5 {
                        search(&b, &tf, 1_300_000, false)?;
                    } else {
                        search(&b, &tf, 3_000 + *sel as u64 * 40, *sel & 1 == 1)?;
                    }
                    fams.insert("search");
                }
                Op7::TfAdd(n) => {
                    for _ in 0..(*n % 600) {
                        let _ = tf.add(b);
                    }
                    let _ = tf.get(&b);
                    fams.insert("repetition");
                }
                Op7::Book(path) => {
                    let mut node = chess_lookup::INITIAL_BOOOK_MOVES;
                    for &i in path {
                        let kids: Vec<chess_lookup::BookMove> = node.into_iter().take(1 << 16).collect();
                        if kids.is_empty() {
                            break;
                        }
                        let k = kids[(i as usize * kids.len()) >> 16];
                        let _ = format!("{:?} {:?}", k.children, k);
                        node = k.children;
                    }
                    let _ = chess_lookup::EMPTY_BOOK_MOVES.into_iter().count();
                    fams.insert("book");
                }
                Op7::BitIter(sel, n) => {
                    let boards = [b[bb::Color::White], b[bb::Color::Black], b[bb::Piece::Pawn], b[bb::Piece::King], b.raw().all(), BitBoard::empty(), !BitBoard::empty()];
                    let x = boards[(*sel as usize) % boards.len()];
                    let mut it = x.iter();
                    let _ = it.nth(*n as usize);
                    let _ = it.size_hint();
                    let _ = it.next();
                    let _ = x.iter().skip(*n as usize).count();
                    let _ = x.iter().step_by((*n as usize).max(1)).count();
                    let mut y = x;
                    let _ = y.pop();
                    let _ = (x.shift_up(), x.shift_down(), x.shift_left(), x.shift_right(), x.flip_ranks());
                    fams.insert("bitboard");
                }
                Op7::Reparse => {
                    if b.full_move_clock() <= 9999 && b.half_move_clock() <= 9999 {
                        let t = b.to_string();
                        let b2: Board = t.parse().map_err(|e| format!("own text `{t}` rejected: {e:?}"))?;
                        let _ = b2.legals().count();
                    }
                    fams.insert("parse");
                }
            }
            Ok(())
        });
        match r {
            Ok(Ok(())) => {}
            Ok(Err(d)) => return Err(format!("C07 on `{fen_before}` op {desc}: {d} (script so far: {} ops)", trace.len())),
            Err(p) => return Err(format!("C07 on `{fen_before}` op {desc}: {p} (script so far: {} ops)", trace.len())),
        }
    }
    st.eval(1);
    if fams.len() >= 3 && non_start {
        if st.nontrivial(digest(&trace)) && st.want_sample() {
            st.sample(json!({"ops": trace.iter().take(12).collect::<Vec<_>>(), "families": fams}));
        }
    }
    for f in fams {
        st.class(&format!("family: {f}"));
    }
    Ok(())
}

fn search(b: &Board, tf: &ThreeFold, k: u64, positional: bool) -> Result<(), String> {
    match run_search(b, tf, k, positional) {
        Ok(((mv, sc), _, _, _)) => {
            let _ = format!("{sc:?} {sc:+?}");
            if let Some(m) = mv {
                if !b.is_legal(m) {
                    return Err(format!("search returned {m}, which the board itself calls illegal"));
                }
            }
            Ok(())
        }
        Err(SearchError::Runaway) | Err(SearchError::Unpolled) => Err(format!("search with limit {k} does not return after expiry")),
        Err(SearchError::Panic(p)) => Err(format!("search with limit {k}: panic: {p}")),
    }
}

fn it_strategy() -> impl Strategy<Value = It> {
    prop_oneof![
        6 => Just(It::Next),
        2 => Just(It::Len),
        2 => any::<u64>().prop_map(It::SetMask),
        2 => (any::<u64>(), any::<u64>()).prop_map(|(a, b)| It::Remove(a & b)),
        2 => any::<u16>().prop_map(It::RemoveMove),
        1 => Just(It::Clone),
        1 => Just(It::Count),
        2 => (0u8..70).prop_map(It::Nth),
        1 => Just(It::Last),
    ]
}

fn cons_strategy() -> impl Strategy<Value = Cons> {
    let bop = prop_oneof![
        8 => (any::<u8>(), any::<u8>()).prop_map(|(c, s)| BOp::Place(c, s)),
        1 => any::<u8>().prop_map(BOp::Remove),
        1 => any::<bool>().prop_map(BOp::Turn),
        1 => prop::option::of(0u8..8).prop_map(BOp::Ep),
        1 => prop_oneof![any::<u16>(), Just(u16::MAX), Just(u16::MAX - 1), 95u16..101].prop_map(BOp::Half),
        1 => prop_oneof![any::<u16>(), Just(u16::MAX), Just(u16::MAX - 1)].prop_map(BOp::Full),
    ];
    let clock = prop_oneof![3 => 0u16..=120, 1 => Just(9999u16), 1 => 9990u16..=9999, 1 => any::<u16>()];
    prop_oneof![
        1 => Just(Cons::Standard),
        6 => (root_strategy(30), clock.clone(), clock.clone()).prop_map(|(r, h, f)| Cons::Root(r, h, f)),
        3 => (any::<u8>(), any::<u8>(), prop::collection::vec((any::<u8>(), any::<u8>()), 0..30), any::<bool>(), prop_oneof![3 => Just(0u8), 1 => 0u8..16], prop_oneof![3 => Just(None), 1 => (0u8..8).prop_map(Some)], clock.clone(), clock)
            .prop_map(|(wk, bk, pieces, black, castle, ep, half, full)| Cons::Free { wk, bk, pieces, black, castle, ep, half, full }),
        3 => (any::<u8>(), any::<u8>(), prop::collection::vec(bop, 0..30)).prop_map(|(a, b, ops)| Cons::Builder(a, b, ops)),
    ]
}

pub fn strategy() -> impl Strategy<Value = Script> {
    let op = prop_oneof![
        3 => cons_strategy().prop_map(Op7::Construct),
        10 => (any::<u16>(), any::<u8>()).prop_map(|(i, h)| Op7::Legal(i, h)),
        2 => (any::<u8>(), any::<u8>(), any::<u8>()).prop_map(|(a, b, c)| Op7::Any(a, b, c)),
        4 => (prop::option::of(any::<u64>()), prop::collection::vec(it_strategy(), 0..14)).prop_map(|(m, o)| Op7::Iter(m, o)),
        1 => Just(Op7::KingLegals),
        2 => Just(Op7::Query),
        1 => Just(Op7::Format),
        1 => any::<u8>().prop_map(Op7::Perft),
        2 => (prop_oneof![Just(0u16), 1u16..60, 60u16..1500], any::<bool>()).prop_map(|(k, p)| Op7::Search(k, p)),
        1 => any::<u8>().prop_map(Op7::LongSearch),
        1 => prop_oneof![1u16..5, 250u16..300, 500u16..600].prop_map(Op7::TfAdd),
        1 => prop::collection::vec(any::<u16>(), 0..10).prop_map(Op7::Book),
        1 => (any::<u8>(), prop_oneof![0u64..70, Just(127u64), Just(128), Just(1 << 32), Just(u64::MAX)]).prop_map(|(s, n)| Op7::BitIter(s, n)),
        1 => Just(Op7::Reparse),
    ];
    prop::collection::vec(op, 1..26).prop_map(|ops| Script { ops })
}

/// Accepted positions need not be reachable. A systematic family of the combination the move
/// generator is most likely to reason about with game-play assumptions: an en-passant marker
/// with a capturer beside the pawn, while the side to move is in check from a piece OTHER than
/// the pawn that made the double step (a pawn, a knight, a slider at distance two) - in play
/// the checker after a double step is that pawn or a piece it uncovered. White to move; the
/// caller also uses the colour mirror.
pub fn ep_with_foreign_check_family() -> Vec<String> {
    let mut out = vec![];
    for f in 0..8i8 {
        for side in [-1i8, 1] {
            let Some(cap) = refchess::mk(f + side, 4) else { continue };
            let pawn = refchess::mk(f, 4).unwrap();
            let (target, origin) = (refchess::mk(f, 5).unwrap(), refchess::mk(f, 6).unwrap());
            for k in 0..64u8 {
                if [cap, pawn, target, origin].contains(&k) {
                    continue;
                }
                let (kf, kr) = (refchess::fl(k), refchess::rk(k));
                let mut checkers: Vec<(u8, P)> = vec![];
                for df in [-1i8, 1] {
                    if let Some(s) = refchess::mk(kf + df, kr + 1) {
                        checkers.push((s, P::Pawn));
                    }
                }
                for (df, dr) in [(1i8, 2i8), (2, 1), (-1, 2), (-2, 1), (1, -2), (2, -1), (-1, -2), (-2, -1)] {
                    if let Some(s) = refchess::mk(kf + df, kr + dr) {
                        checkers.push((s, P::Knight));
                    }
                }
                for (df, dr) in [(0i8, 2i8), (2, 0), (0, -2), (-2, 0)] {
                    if let Some(s) = refchess::mk(kf + df, kr + dr) {
                        checkers.push((s, P::Rook));
                    }
                }
                for (df, dr) in [(2i8, 2i8), (2, -2), (-2, 2), (-2, -2)] {
                    if let Some(s) = refchess::mk(kf + df, kr + dr) {
                        checkers.push((s, P::Bishop));
                    }
                }
                for (cs, ck) in checkers {
                    if [cap, pawn, target, origin, k].contains(&cs) || (ck == P::Pawn && (refchess::rk(cs) == 0 || refchess::rk(cs) == 7)) {
                        continue;
                    }
                    let mut p = Pos::empty();
                    p.sq[k as usize] = Some((C::White, P::King));
                    p.sq[cap as usize] = Some((C::White, P::Pawn));
                    p.sq[pawn as usize] = Some((C::Black, P::Pawn));
                    p.sq[cs as usize] = Some((C::Black, ck));
                    p.ep = Some(f as u8);
                    p.full = 1;
                    // the black king: first corner-ish square that is free, not adjacent to the white
                    // king and not attacked
                    for bk in [63u8, 56, 7, 0, 61, 58, 47, 40] {
                        if p.sq[bk as usize].is_some() || ((refchess::fl(bk) - kf).abs() <= 1 && (refchess::rk(bk) - kr).abs() <= 1) {
                            continue;
                        }
                        let mut q = p.clone();
                        q.sq[bk as usize] = Some((C::Black, P::King));
                        if q.unplayable_reasons().is_empty() {
                            out.push(q.fen());
                            break;
                        }
                    }
                }
            }
        }
    }
    out
}

/// directed boundary families named by the property
fn directed(ctx: &WorkerCtx) -> Result<(), Fail> {
    let mut st = ctx.stats.borrow_mut();
    let run = |name: &str, s: Script, st: &mut Stats| -> Result<(), Fail> {
        ctx.about_to_run(&serde_json::to_value(&s).unwrap());
        run_script(&s, st).map_err(|d| Fail { case: serde_json::to_value(&s).unwrap(), detail: format!("{d} [directed: {name}]") })?;
        st.class(&format!("directed: {name}"));
        st.nontrivial(digest(&name));
        Ok(())
    };
    let full_iter = Op7::Iter(None, vec![It::Len, It::Next, It::Len, It::Count]);
    if ctx.idx == 0 % ctx.n {
        // capacity: 16 mobile pieces + two en-passant capturers; 218-move position; all-queens
        for a0 in 0..48u8 {
            let a: Vec<u8> = (0..40u8).map(|i| a0.wrapping_mul(37).wrapping_add(i.wrapping_mul(11))).collect();
            run("capacity motif (16 mobile pieces + 2 en-passant capturers)", Script { ops: vec![Op7::Construct(Cons::Root(Root::Motif { kind: 8, a, mirror: a0 & 1 == 1 }, 0, 1)), full_iter.clone(), Op7::Perft(1), Op7::Search(40, false), Op7::Format] }, &mut st)?;
        }
        for fen in ["R6R/3Q4/1Q4Q1/4Q3/2Q4Q/Q4Q2/pp1Q4/kBNN1KB1 w - - 0 1", "qqqqkqqq/qqqqqqqq/8/8/8/8/QQQQQQQQ/QQQQKQQQ w - - 0 1", "3Q4/1Q4Q1/4Q3/2Q4R/Q4Q2/3Q4/1Q4Rp/1K1BBNNk w - - 0 1"] {
            run("many-move positions", Script { ops: vec![Op7::Construct(Cons::Root(Root::Fen(fen.into()), 0, 1)), full_iter.clone(), Op7::Perft(1), Op7::Search(30, true), Op7::Query] }, &mut st)?;
        }
    }
    if ctx.idx == 1 % ctx.n {
        // clocks at the 16-bit limit (builder), then moves by both sides
        for (h, f) in [(u16::MAX, u16::MAX), (u16::MAX - 1, u16::MAX), (u16::MAX, 0), (99, u16::MAX)] {
            let ops = vec![
                Op7::Construct(Cons::Builder(4, 60, vec![BOp::Place(8, 0), BOp::Place(9, 63), BOp::Half(h), BOp::Full(f)])),
                Op7::Legal(0, 0),
                Op7::Legal(0, 1),
                Op7::Legal(30000, 2),
                Op7::Legal(65535, 0),
                Op7::Format,
                Op7::Query,
                Op7::Search(50, false),
            ];
            run("clocks at the 16-bit limit", Script { ops }, &mut st)?;
        }
        // > 255 repetitions in the table, then search over it
        run("more than 255 repetitions", Script { ops: vec![Op7::TfAdd(599), Op7::Legal(0, 0), Op7::TfAdd(300), Op7::Search(200, false), Op7::Format] }, &mut st)?;
    }
    if ctx.idx == 2 % ctx.n {
        // long budgets on terminal and clock-drawn roots (65536+ cheap passes)
        for fen in ["7k/5Q2/6K1/8/8/8/8/8 b - - 0 1", "R6k/8/6K1/8/8/8/8/8 b - - 0 1"] {
            run("70000 polls on a terminal root", Script { ops: vec![Op7::Construct(Cons::Root(Root::Fen(fen.into()), 0, 1)), Op7::LongSearch(0)] }, &mut st)?;
        }
        run("1.3M polls on a clock-drawn root", Script { ops: vec![Op7::Construct(Cons::Root(Root::Fen("8/8/8/4k3/8/8/8/4K2R w - - 99 80".into()), 0, 0)), Op7::LongSearch(0)] }, &mut st)?;
    }
    {
        // accepted-but-unreachable: en-passant marker + check from a foreign piece (see above)
        let fam = ep_with_foreign_check_family();
        let every = ctx.tier.pick(3, 1) as usize;
        for (i, fen) in fam.iter().enumerate() {
            if !ctx.mine(i as u64) || (i / ctx.n as usize) % every != (ctx.seed as usize) % every {
                continue;
            }
            for text in [fen.clone(), Pos::from_fen(fen).map(|p| p.mirror().fen()).unwrap_or_default()] {
                let s = Script { ops: vec![Op7::Construct(Cons::Text(text)), full_iter.clone(), Op7::Perft3, Op7::Search(60, false), Op7::Query] };
                ctx.about_to_run(&serde_json::to_value(&s).unwrap());
                run_script(&s, &mut st).map_err(|d| Fail { case: serde_json::to_value(&s).unwrap(), detail: format!("{d} [directed: en-passant marker with a check from another piece (accepted, not reachable)]") })?;
            }
            st.class("directed: en-passant marker with a check from another piece (accepted, not reachable)");
        }
    }
    if ctx.idx == 4 % ctx.n {
        // over-full side (17..31 pieces of one colour, total <= 32): the move list has room for
        // 18 entries only, so such a text must be refused - or, if a change makes the parser
        // accept it, everything that follows must still be safe (seeded change C07-11)
        for fen in [
            "4k3/8/8/8/PPPPPPPP/8/NNNNNNNN/R3K2R w - - 0 1",
            "4k3/8/8/8/PPPPPPPP/NNNNNNNN/8/R3K2R w KQ - 0 1",
            "4k3/8/8/8/PPPPPPPP/8/NNNNNN2/R3K2R w - - 0 1",
            "4k3/pppppppp/8/8/PPPPPPPP/8/NNNNNNNN/R3K2R w - - 0 1",
            "4k3/8/8/PPPPPPPP/PPPPPPPP/8/NNNNNNNN/R3K2R w - - 0 1",
        ] {
            for text in [fen.to_string(), Pos::from_fen(fen).map(|p| p.mirror().fen()).unwrap_or_default()] {
                run("over-full side (17-31 pieces of one colour)", Script { ops: vec![Op7::Construct(Cons::Text(text)), full_iter.clone(), Op7::Perft3, Op7::Search(60, false), Op7::Query, Op7::Format] }, &mut st)?;
            }
        }
    }
    if ctx.idx == 3 % ctx.n {
        // long reversible shuffle from clock 9990: clocks pass 9999 and keep counting
        let mut ops = vec![Op7::Construct(Cons::Root(Root::Fen("4k3/8/8/8/8/8/8/4K2R w - - 9990 9990".into()), 9990, 9990))];
        for _ in 0..ctx.tier.pick(400, 4000) {
            ops.push(Op7::Legal(0, 0));
        }
        ops.push(Op7::Format);
        ops.push(Op7::Reparse);
        run("long shuffle past four-digit clocks", Script { ops }, &mut st)?;
    }
    Ok(())
}

fn worker(ctx: &WorkerCtx) -> Result<(), Fail> {
    directed(ctx)?;
    run_proptest(ctx, 7, ctx.share(ctx.tier.pick(60_000, 3_000_000)), strategy(), |c| serde_json::to_value(c).unwrap(), run_script)
}

pub const C07: CheckDef = CheckDef {
    id: "C07",
    worker,
    replay: |v| {
        if let Some(h) = v.get("fuzz_bytes_hex").and_then(|x| x.as_str()) {
            let bytes: Vec<u8> = (0..h.len() / 2).map(|i| u8::from_str_radix(&h[2 * i..2 * i + 2], 16).unwrap_or(0)).collect();
            return fuzz_one(&bytes);
        }
        let s: Script = serde_json::from_value(v.clone()).map_err(|e| e.to_string())?;
        run_script(&s, &mut Stats::new())
    },
    rule: "stateful scripts over a session {board, repetition table} restricted to the operation families the property names, on accepted positions: construct (standard / parse of generated valid positions with generated clocks / free placements incl. pawns on back ranks written as FEN / builder scripts with clocks up to u16::MAX); legal moves through move_new/move_mut/move_into; arbitrary triples; legals / legals_masked with every iterator method incl. set_mask, remove, remove_move, clone, count, nth, last; king_legals for both colours; in_check/state/zobrist/std hash/king_sq/Index; Display/{:?}/{:#?}/{:b}/{:x}/{:X} of boards, raw boards, bitboards, moves, scores, the repetition table; perft_test(1..=2); Engine::search under counting timeouts (positional on/off; long budgets on terminal and clock-drawn roots); ThreeFold::add up to 600 times; opening-book descent; bitboard iterator nth/skip/step_by with n up to usize::MAX. Directed: capacity positions (16 mobile pieces + 2 en-passant capturers, 218-move position), clocks at the 16-bit limit, > 255 repetitions, 70000-poll terminal roots, 1.3M-poll clock-drawn root, long shuffles past four-digit clocks. Oracle: no panic / abort / signal in the checked profile. Non-trivial = script reaching >= 3 operation families on a non-start position, or a directed boundary case; distinct by script.",
    assumptions: &[
        "checked profile = release optimisation + debug-assertions + overflow-checks: UB that neither traps there nor crashes is not observable",
        "out of scope by the property's wording: free-standing RawBoard mutation and lookup functions with arbitrary indices, perft_test(0), DurationTimeout with a duration that overflows Instant",
    ],
    exhaustive: |_| false,
    uses_reference: true,
    workers: |_| 0,
    known_signature: no_signature,
    profile: "checked",
};

// ---------------------------------------------------------------------------------------
// byte-level decoding for the coverage-guided target (fuzz/fuzz_targets/api.rs): the bytes
// are decoded into the same structured scripts the proptest strategy produces

pub struct Cur<'a> {
    d: &'a [u8],
    i: usize,
}

impl<'a> Cur<'a> {
    pub fn new(d: &'a [u8]) -> Self {
        Cur { d, i: 0 }
    }
    pub fn done(&self) -> bool {
        self.i >= self.d.len()
    }
    pub fn u8(&mut self) -> u8 {
        let v = self.d.get(self.i).copied().unwrap_or(0);
        self.i += 1;
        v
    }
    pub fn u16(&mut self) -> u16 {
        u16::from_le_bytes([self.u8(), self.u8()])
    }
    pub fn u64(&mut self) -> u64 {
        let mut b = [0u8; 8];
        for x in b.iter_mut() {
            *x = self.u8();
        }
        u64::from_le_bytes(b)
    }
    pub fn vec8(&mut self, max: usize) -> Vec<u8> {
        let n = (self.u8() as usize) % (max + 1);
        (0..n).map(|_| self.u8()).collect()
    }
}

fn root_from(c: &mut Cur) -> Root {
    match c.u8() % 4 {
        0 => Root::Named { idx: c.u16() % ROOTS.len() as u16, mirror: c.u8() & 1 == 1 },
        1 => {
            let n = (c.u8() % 29) as usize;
            Root::Synth(Synth {
                wk: c.u8(),
                bk: c.u8(),
                pieces: (0..n).map(|_| (c.u8(), c.u8())).collect(),
                black_to_move: c.u8() & 1 == 1,
                castle: if c.u8() & 1 == 0 { 0 } else { c.u8() % 16 },
                ep: if c.u8() % 3 == 0 { Some((c.u8() % 8, c.u8() % 4)) } else { None },
            })
        }
        _ => {
            let kind = c.u8() % MOTIFS;
            let mut a = c.vec8(40);
            while a.len() < 12 {
                a.push(c.u8());
            }
            Root::Motif { kind, a, mirror: c.u8() & 1 == 1 }
        }
    }
}

fn clock_from(c: &mut Cur) -> u16 {
    match c.u8() % 5 {
        0 => 0,
        1 => (c.u8() % 121) as u16,
        2 => 9990 + (c.u8() % 10) as u16,
        3 => u16::MAX - (c.u8() % 2) as u16,
        _ => c.u16(),
    }
}

fn bops_from(c: &mut Cur) -> Vec<BOp> {
    let n = (c.u8() % 30) as usize;
    (0..n)
        .map(|_| match c.u8() % 13 {
            0..=7 => BOp::Place(c.u8(), c.u8()),
            8 => BOp::Remove(c.u8()),
            9 => BOp::Turn(c.u8() & 1 == 1),
            10 => BOp::Ep(if c.u8() & 1 == 0 { None } else { Some(c.u8() % 8) }),
            11 => BOp::Half(clock_from(c)),
            _ => BOp::Full(clock_from(c)),
        })
        .collect()
}

pub fn script_from_bytes(data: &[u8]) -> Script {
    let mut c = Cur::new(data);
    let mut ops = vec![];
    while !c.done() && ops.len() < 40 {
        let op = match c.u8() % 32 {
            0..=2 => Op7::Construct(match c.u8() % 13 {
                0 => Cons::Standard,
                1..=6 => Cons::Root(root_from(&mut c), clock_from(&mut c), clock_from(&mut c)),
                7..=9 => {
                    let n = (c.u8() % 30) as usize;
                    Cons::Free {
                        wk: c.u8(),
                        bk: c.u8(),
                        pieces: (0..n).map(|_| (c.u8(), c.u8())).collect(),
                        black: c.u8() & 1 == 1,
                        castle: if c.u8() % 4 == 0 { c.u8() % 16 } else { 0 },
                        ep: if c.u8() % 4 == 0 { Some(c.u8() % 8) } else { None },
                        half: clock_from(&mut c).min(9999),
                        full: clock_from(&mut c).min(9999),
                    }
                }
                _ => Cons::Builder(c.u8(), c.u8(), bops_from(&mut c)),
            }),
            3..=12 => Op7::Legal(c.u16(), c.u8()),
            13 | 14 => Op7::Any(c.u8(), c.u8(), c.u8()),
            15..=18 => {
                let mask = if c.u8() & 1 == 0 { None } else { Some(c.u64()) };
                let n = (c.u8() % 14) as usize;
                let its = (0..n)
                    .map(|_| match c.u8() % 18 {
                        0..=5 => It::Next,
                        6 | 7 => It::Len,
                        8 | 9 => It::SetMask(c.u64()),
                        10 | 11 => It::Remove(c.u64() & c.u64()),
                        12 | 13 => It::RemoveMove(c.u16()),
                        14 => It::Clone,
                        15 => It::Count,
                        16 => It::Nth(c.u8() % 70),
                        _ => It::Last,
                    })
                    .collect();
                Op7::Iter(mask, its)
            }
            19 => Op7::KingLegals,
            20 | 21 => Op7::Query,
            22 => Op7::Format,
            23 => Op7::Perft(c.u8()),
            24 | 25 => Op7::Search(c.u16() % 1500, c.u8() & 1 == 1),
            26 => Op7::LongSearch(c.u8()),
            27 => Op7::TfAdd([1u16, 3, 254, 255, 256, 300, 599][(c.u8() % 7) as usize]),
            28 => Op7::Book((0..(c.u8() % 10)).map(|_| c.u16()).collect()),
            29 => Op7::BitIter(c.u8(), [0u64, 1, 5, 63, 64, 65, 127, 128, 1 << 32, u64::MAX][(c.u8() % 10) as usize]),
            _ => Op7::Reparse,
        };
        ops.push(op);
    }
    Script { ops }
}

/// entry point of the coverage-guided target: Err = property violated
pub fn fuzz_one(data: &[u8]) -> Result<(), String> {
    let s = script_from_bytes(data);
    run_script(&s, &mut Stats::new())
}
