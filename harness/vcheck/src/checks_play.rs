//! C01, C02, C03, C05: lockstep playouts (G1) from named, synthetic (G2) and motif (G3) roots.

use crate::fw::*;
use crate::gen::*;
use crate::play::*;
use serde_json::Value;

fn cases(tier: Tier, q: u64, t: u64) -> u64 {
    std::env::var("VERIF_CASES").ok().and_then(|s| s.parse().ok()).unwrap_or(tier.pick(q, t))
}

fn play_worker(ctx: &WorkerCtx, mode: Mode, total: u64) -> Result<(), Fail> {
    let cfg = WalkCfg { mode, all_moves_every: 4, full_sweep_every: ctx.tier.pick(1024, 256) };
    let max_len = ctx.tier.pick(120, 200);
    run_proptest(ctx, mode as u64, ctx.share(total), play_strategy(max_len, 28), case_json, |case, st| run_play(&cfg, case, st))
}

fn play_replay(mode: Mode, v: &Value) -> Result<(), String> {
    let case = case_from_json(v)?;
    let cfg = WalkCfg { mode, all_moves_every: 1, full_sweep_every: 1 };
    let mut st = Stats::new();
    run_play(&cfg, &case, &mut st)
}

const ASSUME_PLAY: &[&str] = &[
    "oracle: refchess mailbox model, anchored to six published perft values recomputed before every run",
    "valid start position = playable (C06 predicate), no pawn on a back rank, and a marker only when the double step can be retracted legally (DESIGN.md 3.2)",
    "sampled, not exhaustive: positions come from named roots, synthetic placements and motif constructors followed by biased random playouts",
];

/// Directed, exhaustive family for C01: every pin geometry. For each king square, each of
/// the 8 directions, each pair of distances (pinned piece at d1, enemy slider at d2 > d1) and
/// each pinned piece type, the generated moves must equal the reference's (in particular:
/// sliding along the pin line, capturing the pinner, knights frozen, pawns only along files
/// or capturing the pinner diagonally). Both colours (colour mirror).
fn pin_geometry(ctx: &WorkerCtx) -> Result<(), Fail> {
    use crate::conv::*;
    use refchess::{fl, mk, rk, Pos, C, P};
    let mut st = ctx.stats.borrow_mut();
    for k in 0..64u8 {
        if !ctx.mine(k as u64) {
            continue;
        }
        for (df, dr) in refchess::KG {
            let diag = df != 0 && dr != 0;
            let line: Vec<u8> = (1..8).map_while(|d| mk(fl(k) + df * d, rk(k) + dr * d)).collect();
            for i1 in 0..line.len() {
                for i2 in i1 + 1..line.len() {
                    for pinned in [P::Queen, P::Rook, P::Bishop, P::Knight, P::Pawn] {
                        for pinner in [P::Queen, if diag { P::Bishop } else { P::Rook }] {
                            let mut p = Pos::empty();
                            p.full = 1;
                            p.sq[k as usize] = Some((C::White, P::King));
                            if pinned == P::Pawn && !(1..=6).contains(&rk(line[i1])) {
                                continue;
                            }
                            p.sq[line[i1] as usize] = Some((C::White, pinned));
                            p.sq[line[i2] as usize] = Some((C::Black, pinner));
                            // black king on the first square that keeps the position valid
                            let Some(bk) = (0..64u8).find(|&s| {
                                if p.sq[s as usize].is_some() {
                                    return false;
                                }
                                let mut q = p.clone();
                                q.sq[s as usize] = Some((C::Black, P::King));
                                q.plausible()
                            }) else {
                                continue;
                            };
                            p.sq[bk as usize] = Some((C::Black, P::King));
                            for pos in [p.clone(), p.mirror()] {
                                let legal = pos.legal();
                                ctx.about_to_run(&case_json(&PlayCase { root: Root::Fen(pos.fen()), half: 0, full: 0, choices: vec![], aux: 0 }));
                                let res = guarded(|| -> Result<(), String> {
                                    let b = to_board(&pos)?;
                                    let gen = gen_moves(&b);
                                    if gen != legal {
                                        let extra: Vec<_> = gen.iter().copied().filter(|m| !legal.contains(m)).collect();
                                        let missing: Vec<_> = legal.iter().copied().filter(|m| !gen.contains(m)).collect();
                                        return Err(format!("C01 pin geometry `{}`: generated-but-illegal=[{}] legal-but-missing=[{}]", pos.fen(), fmt_moves(&extra), fmt_moves(&missing)));
                                    }
                                    Ok(())
                                })
                                .unwrap_or_else(Err);
                                if let Err(d) = res {
                                    let case = PlayCase { root: Root::Fen(pos.fen()), half: 0, full: 0, choices: vec![], aux: 0 };
                                    return Err(Fail { case: case_json(&case), detail: d });
                                }
                                st.eval(1);
                                st.nontrivial(digest(&pos.key()));
                            }
                        }
                    }
                }
            }
        }
    }
    st.class("directed: every pin geometry (king square x direction x distances x pinned type x pinner type, both colours)");
    // castling under attack, enumerated: each back-rank square b1..g1 attacked by each piece type
    // from each square it can attack from (one attacker at a time), both rights held, both colours
    if ctx.idx == 1 % ctx.n {
        let check = |pos: &Pos, st: &mut Stats| -> Result<(), Fail> {
            let legal = pos.legal();
            ctx.about_to_run(&case_json(&PlayCase { root: Root::Fen(pos.fen()), half: 0, full: 0, choices: vec![], aux: 0 }));
            let res = guarded(|| -> Result<(), String> {
                let b = to_board(pos)?;
                let gen = gen_moves(&b);
                if gen != legal {
                    let extra: Vec<_> = gen.iter().copied().filter(|m| !legal.contains(m)).collect();
                    let missing: Vec<_> = legal.iter().copied().filter(|m| !gen.contains(m)).collect();
                    return Err(format!("C01 directed `{}`: generated-but-illegal=[{}] legal-but-missing=[{}]", pos.fen(), fmt_moves(&extra), fmt_moves(&missing)));
                }
                for m in &legal {
                    if !b.is_legal(to_cm(*m)) {
                        return Err(format!("C01 directed `{}`: is_legal({m}) is false", pos.fen()));
                    }
                }
                Ok(())
            })
            .unwrap_or_else(Err);
            if let Err(d) = res {
                let case = PlayCase { root: Root::Fen(pos.fen()), half: 0, full: 0, choices: vec![], aux: 0 };
                return Err(Fail { case: case_json(&case), detail: d });
            }
            st.eval(1);
            st.nontrivial(digest(&pos.key()));
            Ok(())
        };
        for kind in [P::Pawn, P::Knight, P::Bishop, P::Rook, P::Queen, P::King] {
            for s in 8..64u8 {
                if kind == P::Pawn && !(1..=6).contains(&rk(s)) {
                    continue;
                }
                let mut p = Pos::empty();
                p.full = 1;
                p.sq[4] = Some((C::White, P::King));
                p.sq[0] = Some((C::White, P::Rook));
                p.sq[7] = Some((C::White, P::Rook));
                p.castle = [true, true, false, false];
                p.sq[s as usize] = Some((C::Black, kind));
                if kind != P::King {
                    // black king far away on a square that keeps the position valid
                    let Some(bk) = (40..64u8).rev().find(|&q| {
                        if p.sq[q as usize].is_some() {
                            return false;
                        }
                        let mut t = p.clone();
                        t.sq[q as usize] = Some((C::Black, P::King));
                        t.plausible()
                    }) else {
                        continue;
                    };
                    p.sq[bk as usize] = Some((C::Black, P::King));
                }
                if !p.plausible() {
                    continue;
                }
                check(&p, &mut st)?;
                check(&p.mirror(), &mut st)?;
            }
        }
        st.class("directed: castling with one attacker of every type on every square (both colours)");
        // en passant, enumerated: every file, both capturer sides, both colours, played by a double step
        for f in 0..8i8 {
            for side in [-1i8, 1] {
                let (Some(from), Some(to), Some(cap)) = (mk(f, 6), mk(f, 4), mk(f + side, 4)) else { continue };
                for wk in [0u8, 7, 20] {
                    let mut p = Pos::empty();
                    p.full = 1;
                    p.turn = C::Black;
                    p.sq[from as usize] = Some((C::Black, P::Pawn));
                    p.sq[cap as usize] = Some((C::White, P::Pawn));
                    if p.sq[wk as usize].is_some() {
                        continue;
                    }
                    p.sq[wk as usize] = Some((C::White, P::King));
                    let bk = if fl(60) == f { 62 } else { 60 };
                    p.sq[bk as usize] = Some((C::Black, P::King));
                    if !p.plausible() {
                        continue;
                    }
                    let m = refchess::Mv { from, to, promo: None };
                    if !p.legal().contains(&m) {
                        continue;
                    }
                    let q = p.apply(m);
                    check(&q, &mut st)?;
                    check(&q.mirror(), &mut st)?;
                }
            }
        }
        st.class("directed: en passant on every file from either side (both colours)");
    }
    Ok(())
}

pub const C01: CheckDef = CheckDef {
    id: "C01",
    worker: |ctx| {
        pin_geometry(ctx)?;
        play_worker(ctx, Mode::C01, cases(ctx.tier, 250_000, 3_000_000))
    },
    replay: |v| play_replay(Mode::C01, v),
    rule: "case = (root, clocks, playout choices); every visited position compares legals() as a sorted set with the reference (plus len/is_empty, is_legal on all legal moves, near-miss and generated illegal triples, periodically all 20480 triples); plus a directed EXHAUSTIVE family of all pin geometries (king square x 8 directions x distance pairs x 5 pinned types x 2 pinner types, both colours). evaluations = positions compared. Non-trivial = position with the mover in check, a pinned piece, an en-passant marker with a capturer beside it, a castling right with an empty path, or a promotion available; distinct by (placement, turn, rights, marker).",
    assumptions: ASSUME_PLAY,
    exhaustive: |_| false,
    uses_reference: true,
    workers: |_| 0,
    known_signature: no_signature,
    profile: "release",
};

pub const C02: CheckDef = CheckDef {
    id: "C02",
    worker: |ctx| play_worker(ctx, Mode::C02, cases(ctx.tier, 30_000, 600_000)),
    replay: |v| play_replay(Mode::C02, v),
    rule: "every played move and, on every 4th position, every legal move: move_new vs reference successor (64 squares, turn, clocks, FEN text incl. rights and marker, bitboard partition), move_mut/move_into equal to move_new; illegal triples must be refused by all three operations leaving receiver/output untouched. evaluations = moves applied + refusals. Non-trivial = castling, en passant, promotion, double step, capture on a rook home square, king/rook leaving home with a right, or an illegal triple aimed at an own piece; distinct by (position key, move).",
    assumptions: ASSUME_PLAY,
    exhaustive: |_| false,
    uses_reference: true,
    workers: |_| 0,
    known_signature: no_signature,
    profile: "release",
};

pub const C03: CheckDef = CheckDef {
    id: "C03",
    worker: |ctx| play_worker(ctx, Mode::C03, cases(ctx.tier, 250_000, 3_000_000)),
    replay: |v| play_replay(Mode::C03, v),
    rule: "after every ply: in_check()/state() vs reference; the moved board vs the same position parsed from the reference FEN (and built with the builder when no right is held): legal-move sets, check, state, zobrist, std hash, text, {:?} and {:#?}. evaluations = positions compared. Non-trivial = last move gave check (classified direct/discovered/castling/promotion/en-passant/double), a pin exists, or the position is mate/stalemate/clock-draw; distinct by (position key, last move).",
    assumptions: ASSUME_PLAY,
    exhaustive: |_| false,
    uses_reference: true,
    workers: |_| 0,
    known_signature: no_signature,
    profile: "release",
};

pub const C05: CheckDef = CheckDef {
    id: "C05",
    worker: |ctx| {
        crate::c05_extra::directed(ctx)?;
        run_proptest(ctx, 55, ctx.share(cases(ctx.tier, 250_000, 3_000_000) / 2), crate::c05_extra::builder_strategy(), |c| serde_json::json!({"builder": c}), crate::c05_extra::builder_case)?;
        play_worker(ctx, Mode::C05, cases(ctx.tier, 250_000, 3_000_000))
    },
    replay: |v| {
        if v.get("directed").is_some() {
            return crate::c05_extra::replay(v);
        }
        if let Some(b) = v.get("builder") {
            let c: crate::c05_extra::BuilderCase = serde_json::from_value(b.clone()).map_err(|e| e.to_string())?;
            return crate::c05_extra::builder_case(&c, &mut Stats::new());
        }
        play_replay(Mode::C05, v)
    },
    rule: "every visited board: to_string() equals the reference writer's canonical FEN byte for byte; parse(to_string()) equals the board (==, clocks, hash, {:?}, {:#?}); parse(canonical).to_string() == canonical; builder == parser when no right is held; standard() == parse(standard FEN) == builder script; generated builder HISTORIES (place, rejected place on an occupied square, remove, turn, marker, clocks) whose build() succeeds are compared with the parser's board for the same position (==, hash, text, both debug forms, legal moves). evaluations = boards round-tripped. Non-trivial = marker present, 1-3 rights, a rank with >= 5 runs, or a clock >= 1000; distinct by FEN.",
    assumptions: ASSUME_PLAY,
    exhaustive: |_| false,
    uses_reference: true,
    workers: |_| 0,
    known_signature: no_signature,
    profile: "release",
};
