//! C01, C02, C03, C05: lockstep playouts (G1) from named, synthetic (G2) and motif (G3) roots.

use crate::fw::*;
use crate::gen::*;
use crate::play::*;
use serde_json::Value;

fn cases(tier: Tier, q: u64, t: u64) -> u64 {
    std::env::var("VERIF_CASES").ok().and_then(|s| s.parse().ok()).unwrap_or(tier.pick(q, t))
}

fn play_worker(ctx: &WorkerCtx, mode: Mode, total: u64) -> Result<(), Fail> {
    let cfg = WalkCfg { mode, all_moves_every: 4, full_sweep_every: ctx.tier.pick(1024, 256) };
    let max_len = ctx.tier.pick(120, 200);
    run_proptest(ctx, mode as u64, ctx.share(total), play_strategy(max_len, 28), case_json, |case, st| run_play(&cfg, case, st))
}

fn play_replay(mode: Mode, v: &Value) -> Result<(), String> {
    let case = case_from_json(v)?;
    let cfg = WalkCfg { mode, all_moves_every: 1, full_sweep_every: 1 };
    let mut st = Stats::new();
    run_play(&cfg, &case, &mut st)
}

const ASSUME_PLAY: &[&str] = &[
    "oracle: refchess mailbox model, anchored to six published perft values recomputed before every run",
    "valid start position = playable (C06 predicate), no pawn on a back rank, and a marker only when the double step can be retracted legally (DESIGN.md 3.2)",
    "sampled, not exhaustive: positions come from named roots, synthetic placements and motif constructors followed by biased random playouts",
];

pub const C01: CheckDef = CheckDef {
    id: "C01",
    worker: |ctx| play_worker(ctx, Mode::C01, cases(ctx.tier, 150_000, 3_000_000)),
    replay: |v| play_replay(Mode::C01, v),
    rule: "case = (root, clocks, playout choices); every visited position compares legals() as a sorted set with the reference (plus len/is_empty, is_legal on all legal moves, near-miss and generated illegal triples, periodically all 20480 triples). evaluations = positions compared. Non-trivial = position with the mover in check, a pinned piece, an en-passant marker with a capturer beside it, a castling right with an empty path, or a promotion available; distinct by (placement, turn, rights, marker).",
    assumptions: ASSUME_PLAY,
    exhaustive: |_| false,
    uses_reference: true,
    workers: |_| 0,
    known_signature: no_signature,
    profile: "release",
};

pub const C02: CheckDef = CheckDef {
    id: "C02",
    worker: |ctx| play_worker(ctx, Mode::C02, cases(ctx.tier, 30_000, 600_000)),
    replay: |v| play_replay(Mode::C02, v),
    rule: "every played move and, on every 4th position, every legal move: move_new vs reference successor (64 squares, turn, clocks, FEN text incl. rights and marker, bitboard partition), move_mut/move_into equal to move_new; illegal triples must be refused by all three operations leaving receiver/output untouched. evaluations = moves applied + refusals. Non-trivial = castling, en passant, promotion, double step, capture on a rook home square, king/rook leaving home with a right, or an illegal triple aimed at an own piece; distinct by (position key, move).",
    assumptions: ASSUME_PLAY,
    exhaustive: |_| false,
    uses_reference: true,
    workers: |_| 0,
    known_signature: no_signature,
    profile: "release",
};

pub const C03: CheckDef = CheckDef {
    id: "C03",
    worker: |ctx| play_worker(ctx, Mode::C03, cases(ctx.tier, 150_000, 3_000_000)),
    replay: |v| play_replay(Mode::C03, v),
    rule: "after every ply: in_check()/state() vs reference; the moved board vs the same position parsed from the reference FEN (and built with the builder when no right is held): legal-move sets, check, state, zobrist, std hash, text, {:?} and {:#?}. evaluations = positions compared. Non-trivial = last move gave check (classified direct/discovered/castling/promotion/en-passant/double), a pin exists, or the position is mate/stalemate/clock-draw; distinct by (position key, last move).",
    assumptions: ASSUME_PLAY,
    exhaustive: |_| false,
    uses_reference: true,
    workers: |_| 0,
    known_signature: no_signature,
    profile: "release",
};

pub const C05: CheckDef = CheckDef {
    id: "C05",
    worker: |ctx| {
        crate::c05_extra::directed(ctx)?;
        play_worker(ctx, Mode::C05, cases(ctx.tier, 150_000, 3_000_000))
    },
    replay: |v| {
        if v.get("directed").is_some() {
            return crate::c05_extra::replay(v);
        }
        play_replay(Mode::C05, v)
    },
    rule: "every visited board: to_string() equals the reference writer's canonical FEN byte for byte; parse(to_string()) equals the board (==, clocks, hash, {:?}, {:#?}); parse(canonical).to_string() == canonical; builder == parser when no right is held; standard() == parse(standard FEN) == builder script. evaluations = boards round-tripped. Non-trivial = marker present, 1-3 rights, a rank with >= 5 runs, or a clock >= 1000; distinct by FEN.",
    assumptions: ASSUME_PLAY,
    exhaustive: |_| false,
    uses_reference: true,
    workers: |_| 0,
    known_signature: no_signature,
    profile: "release",
};
