//! C11 (legal move whenever the limit may expire), C12 (mate in one), C13 (colour symmetry).

use crate::conv::*;
use crate::fw::*;
use crate::gen::*;
use crate::obs::*;
use crate::play::apply_clocks;
use chess_engine::{Score, ThreeFold};
use chess_movegen::Board;
use proptest::prelude::*;
use refchess::{Mv, Pos, C, P};
use serde::{Deserialize, Serialize};
use serde_json::{json, Value};

#[derive(Clone, Debug, Serialize, Deserialize, PartialEq)]
pub struct EngCase {
    pub play: PlayCase,
    /// pre-fill the repetition table with the positions of the playout
    pub history: bool,
    /// generated extra limits (fractions of the profiled total, in 1/65536)
    pub extra: Vec<u16>,
    /// force the half-move clock near the draw boundary (C12)
    pub clock: Option<u8>,
}

fn eng_strategy(max_pieces: usize, max_len: usize) -> impl Strategy<Value = EngCase> {
    (play_strategy(max_len, max_pieces), prop::bool::weighted(0.3), prop::collection::vec(any::<u16>(), 0..24), prop_oneof![3 => Just(None), 1 => (95u8..=100).prop_map(Some)])
        .prop_map(|(play, history, extra, clock)| EngCase { play, history, extra, clock })
}

fn eng_json(c: &EngCase) -> Value {
    let mut v = serde_json::to_value(c).unwrap();
    v["play"] = crate::play::case_json(&c.play);
    v
}

fn eng_from(v: &Value) -> Result<EngCase, String> {
    let mut v = v.clone();
    let play = crate::play::case_from_json(&v["play"])?;
    v["play"] = serde_json::to_value(&play).unwrap();
    serde_json::from_value(v).map_err(|e| format!("bad case: {e}"))
}

struct Setup {
    pos: Pos,
    board: Board,
    tf: ThreeFold,
    legal: Vec<Mv>,
}

/// walk the playout; the searched position is the last one
fn setup(c: &EngCase, max_men: usize, st: &mut Stats) -> Result<Option<Setup>, String> {
    let Some(root) = build_root(&c.play.root) else {
        if !st.frozen {
            st.rejected += 1;
        }
        return Ok(None);
    };
    let mut pos = apply_clocks(root, &c.play);
    let mut tf = ThreeFold::new();
    for &(bias, idx) in &c.play.choices {
        let l = pos.legal();
        if l.is_empty() {
            break;
        }
        pos = pos.apply(pick(&pos, &l, bias, idx));
        if c.history {
            let _ = tf.add(to_board(&pos)?);
        }
    }
    if let Some(h) = c.clock {
        if pos.ep.is_none() {
            pos.half = h as u32;
        }
    }
    if pos.men() > max_men {
        if !st.frozen {
            st.class("skipped: too many men for the poll budget");
        }
        return Ok(None);
    }
    let board = to_board(&pos)?;
    let legal = pos.legal();
    Ok(Some(Setup { pos, board, tf, legal }))
}

fn search_err(e: SearchError, fen: &str, k: u64) -> String {
    match e {
        SearchError::Runaway => format!("search of `{fen}` with the limit expiring at poll {k} keeps polling more than {POST_EXPIRY_POLL_BOUND} times after expiry (does not terminate)"),
        SearchError::Unpolled => format!("search of `{fen}` with the limit expiring at poll {k} {}", crate::obs::UNPOLLED_TEXT),
        SearchError::Panic(p) => format!("search of `{fen}` with the limit expiring at poll {k} panics: {p}"),
    }
}

const CAP: u64 = 600_000;

// ---------------------------------------------------------------------------------------
// C11

fn c11_case(c: &EngCase, st: &mut Stats, dense: u64) -> Result<(), String> {
    let Some(s) = setup(c, 32, st)? else { return Ok(()) };
    let fen = s.pos.fen();
    // the property holds for either engine configuration: positional evaluation on for half the cases
    let positional = c.play.aux & 1 == 1;
    let prof = profile(&s.board, &s.tf, CAP, 3, positional).map_err(|e| format!("C11 {}", search_err(e, &fen, CAP)))?;
    let starts = &prof.starts;
    let s1 = starts.get(1).copied();
    // limits: every k up to min(s_2, dense); around every boundary; generated values up to the total
    let mut ks: Vec<u64> = vec![];
    let dense_to = starts.get(2).copied().unwrap_or(prof.total_polls).min(dense);
    ks.extend(0..=dense_to);
    for &b in starts.iter() {
        for d in 0..=6u64 {
            ks.push((b + d).saturating_sub(3));
        }
    }
    let total = prof.total_polls.min(CAP);
    for &x in &c.extra {
        ks.push((x as u64 * (total + 1)) >> 16);
    }
    ks.push(total);
    ks.push(total + 1);
    ks.sort();
    ks.dedup();
    let mut first_some: Option<u64> = None;
    // half of the cases run all their searches on ONE engine object (the plugin keeps one for a
    // whole game); the limits are then visited in a generated order, not ascending
    let reuse = c.play.aux & 2 == 2;
    let mut shared = chess_engine::Engine::default();
    if reuse {
        let mut x = Expand(c.play.aux);
        // warm the engine with a search of an unrelated position and a longer budget
        let _ = run_search_on(&mut shared, &Board::standard(), &ThreeFold::new(), 300 + x.below(600), !positional);
        st.class("engine object reused across searches");
    }
    for &k in &ks {
        let ((mv, _score), _depth, _polls, expired) = if reuse {
            run_search_on(&mut shared, &s.board, &s.tf, k, positional)
        } else {
            run_search(&s.board, &s.tf, k, positional)
        }
        .map_err(|e| format!("C11 {}{}", if reuse { "[one engine object reused for all searches of the case] " } else { "" }, search_err(e, &fen, k)))?;
        match mv {
            Some(m) => {
                let m = from_cm(m);
                if !s.legal.contains(&m) {
                    return Err(format!("C11 search of `{fen}` with the limit expiring at poll {k} returns {m}, which is not legal there (legal: [{}])", fmt_moves(&s.legal)));
                }
                if first_some.is_none() && !reuse {
                    first_some = Some(k);
                }
            }
            None if reuse => {
                // an engine object that carries state from earlier searches (say, a table kept
                // between searches) may need a different number of polls for its first pass than
                // the fresh engine that was profiled: only what does not depend on poll counts is
                // asserted here -- a search that returns by itself must bring a move
                if !expired && !s.legal.is_empty() {
                    return Err(format!("C11 [one engine object reused] search of `{fen}` returned by itself (limit at poll {k} never expired) yet returned no move although legal moves exist"));
                }
            }
            None => {
                if !expired && !s.legal.is_empty() {
                    // the call returned although the limit never expired: the deepening loop ended by
                    // itself, so at least the first pass finished before the limit
                    return Err(format!("C11 search of `{fen}` returned by itself (the limit, set to expire at poll {k}, never expired) yet returned no move although legal moves exist"));
                }
                if let Some(f) = first_some {
                    return Err(format!("C11 search of `{fen}`: a move is returned when the limit expires at poll {f} but none when it expires later, at poll {k}"));
                }
                if !s.legal.is_empty() {
                    if let (Some(s1), false) = (s1, prof.observer_missing) {
                        if k >= s1 {
                            return Err(format!("C11 search of `{fen}`: the first pass finishes after {s1} polls, yet with the limit expiring at poll {k} no move is returned"));
                        }
                    }
                }
            }
        }
        if s.legal.is_empty() && mv.is_some() {
            return Err(format!("C11 search of `{fen}` (no legal move) returns a move at k={k}"));
        }
        // the same expiry instant with logging switched on (INFO + DEBUG events formatted, as
        // `chess-cli -v` does): same result, and in particular no panic
        if k <= 48 || starts.iter().any(|b| k + 3 >= *b && k <= *b + 3) || k >= total {
            let ((mv2, _), _, _, _) = run_search_loud(&s.board, &s.tf, k, positional).map_err(|e| format!("C11 [logging enabled] {}", search_err(e, &fen, k)))?;
            if mv2 != mv {
                return Err(format!("C11 search of `{fen}` with the limit expiring at poll {k} returns {:?} with logging enabled but {:?} without", mv2.map(|m| from_cm(m).to_string()), mv.map(|m| from_cm(m).to_string())));
            }
            st.class("also run with logging enabled");
        }
        st.eval(1);
        let s3 = starts.get(3).copied().unwrap_or(u64::MAX);
        if s1.is_some() && k > 0 && k < s3 {
            st.nontrivial(digest(&(s.pos.key(), k)));
        }
        if starts.contains(&k) {
            st.class("expiry exactly on a pass boundary");
        }
    }
    // with no limit at all (cap), legal moves exist => a move must come back unless the cap hit first
    if !s.legal.is_empty() && prof.result.0.is_none() && ((s1.is_some() && !prof.observer_missing) || prof.self_terminated) {
        return Err(format!("C11 search of `{fen}` completed its first pass but returned no move"));
    }
    if s.legal.is_empty() {
        st.class("terminal position searched");
    }
    if s1.is_none() {
        st.class(if prof.hit_cap { "first pass did not finish within the poll cap" } else { "no first-pass boundary observed" });
    } else {
        st.class(&format!("passes observed: {}", starts.len().min(4)));
    }
    if c.history {
        st.class("with pre-filled repetition history");
    }
    if positional {
        st.class("positional evaluation on");
    }
    if st.want_sample() {
        st.sample(json!({"fen": fen, "pass_starts": starts, "limits_tried": ks.len(), "unlimited_result": prof.result.0.map(|m| from_cm(m).to_string())}));
    }
    Ok(())
}

/// many-move positions: several queens on an open board (well over 100 legal moves, which
/// random play never reaches), built by construction
fn many_move_position(g: &mut Expand) -> Option<Pos> {
    let mut p = Pos::empty();
    p.full = 1;
    let corner = [0u8, 7, 56, 63][g.below(4) as usize];
    p.sq[corner as usize] = Some((C::Black, P::King));
    let free = |p: &Pos, g: &mut Expand| -> u8 {
        loop {
            let s = g.below(64) as u8;
            if p.sq[s as usize].is_none() {
                return s;
            }
        }
    };
    let wk = free(&p, g);
    p.sq[wk as usize] = Some((C::White, P::King));
    let nq = 5 + g.below(5);
    for _ in 0..nq {
        let s = free(&p, g);
        p.sq[s as usize] = Some((C::White, P::Queen));
        // the side not to move may not be in check: drop a queen that attacks the black king
        if !p.unplayable_reasons().is_empty() {
            p.sq[s as usize] = None;
        }
    }
    for _ in 0..g.below(3) {
        let s = free(&p, g);
        p.sq[s as usize] = Some((C::White, [P::Rook, P::Bishop, P::Knight][g.below(3) as usize]));
        if !p.unplayable_reasons().is_empty() {
            p.sq[s as usize] = None;
        }
    }
    for _ in 0..g.below(3) {
        let s = free(&p, g);
        if (1..=6).contains(&(s / 8)) {
            p.sq[s as usize] = Some((C::Black, P::Pawn));
            if !p.unplayable_reasons().is_empty() {
                p.sq[s as usize] = None;
            }
        }
    }
    p.turn = C::White;
    if !p.plausible() {
        return None;
    }
    Some(if g.below(2) == 0 { p } else { p.mirror() })
}

fn fen_case(p: &Pos) -> EngCase {
    EngCase { play: PlayCase { root: Root::Fen(p.fen()), half: 0, full: 0, choices: vec![], aux: 0 }, history: false, extra: vec![100, 20000, 40000, 65000], clock: None }
}

/// directed C11 family: every named root and its mirror exactly as given (no playout), and
/// constructed many-move positions
fn c11_directed(ctx: &WorkerCtx) -> Result<(), Fail> {
    let mut st = ctx.stats.borrow_mut();
    for i in 0..ROOTS.len() {
        if !ctx.mine(i as u64) {
            continue;
        }
        for mirror in [false, true] {
            let c = EngCase { play: PlayCase { root: Root::Named { idx: i as u16, mirror }, half: 0, full: 0, choices: vec![], aux: 0 }, history: false, extra: vec![100, 30000, 65000], clock: None };
            ctx.about_to_run(&eng_json(&c));
            guarded(|| c11_case(&c, &mut st, 40)).unwrap_or_else(Err).map_err(|d| Fail { case: eng_json(&c), detail: d })?;
        }
    }
    st.class("directed: every named root and its mirror, unplayed");
    // the engine's own wall-clock timeout with budgets that expire at once (0, 1 us, 1 ms, 3 ms):
    // the oracle (no panic, legal move or none) does not depend on when it fires
    if ctx.idx == 0 {
        for (i, fen) in ROOTS.iter().enumerate().take(24) {
            let pos = Pos::from_fen(fen).expect("root");
            let b = to_board(&pos).map_err(|d| Fail { case: json!({"fen": fen}), detail: d })?;
            let legal = pos.legal();
            for budget_us in [0u64, 1, 1000, 3000] {
                let case = json!({"duration_timeout_us": budget_us, "fen": fen, "positional": i % 2 == 0});
                ctx.about_to_run(&case);
                let r = {
                    let t = chess_engine::DurationTimeout::new(std::time::Duration::from_micros(budget_us));
                    let mut e = chess_engine::Engine::default();
                    e.positional = i % 2 == 0;
                    crate::obs::search_plain(&mut e, &b, &ThreeFold::new(), &t)
                };
                match r {
                    Err(p) => return Err(Fail { case, detail: format!("C11 search of `{fen}` under DurationTimeout of {budget_us} us: {p}") }),
                    Ok((Some(m), _)) if !legal.contains(&from_cm(m)) => return Err(Fail { case, detail: format!("C11 search of `{fen}` under DurationTimeout of {budget_us} us returns illegal {}", from_cm(m)) }),
                    Ok((Some(_), _)) if legal.is_empty() => return Err(Fail { case, detail: format!("C11 search of `{fen}` (no legal move) returns a move") }),
                    _ => {}
                }
                st.eval(1);
            }
        }
        st.class("directed: DurationTimeout with budgets of 0 .. 3 ms");
    }
    // the front-end path: the same search as plugin hosts get it (through the stable interface of
    // the plugin built from the tree), and the real referee loop of `chess-cli bot-fight`
    if ctx.idx == 3 % ctx.n {
        if crate::c15::plugin_available() {
            let mut g = Expand(ctx.wseed(1113));
            let mut roots: Vec<Pos> = ROOTS.iter().take(30).filter_map(|f| Pos::from_fen(f)).collect();
            let mut tries = 0;
            while roots.len() < 30 + ctx.tier.pick(40, 400) as usize && tries < 2_000_000 {
                tries += 1;
                let Some(p) = underpromotion_candidate(&mut g) else { continue };
                let legal = p.legal();
                let mates = mating_moves(&p, &legal);
                if mates.iter().any(|m| m.promo == Some(P::Knight)) && mates.iter().all(|m| m.promo.is_some() && m.promo != Some(P::Queen)) {
                    roots.push(p.mirror());
                    roots.push(p);
                }
            }
            for p in &roots {
                let legal = p.legal();
                for k in [0u64, 25, 400, 3000] {
                    let case = json!({"plugin_evaluate": p.fen(), "k": k});
                    ctx.about_to_run(&case);
                    let mv = guarded(|| crate::c15::plugin_evaluate(p, k)).unwrap_or_else(Err).map_err(|d| Fail { case: case.clone(), detail: format!("C11 [through the plugin interface] {d}") })?;
                    match mv {
                        Some(m) if !legal.contains(&m) => {
                            return Err(Fail { case, detail: format!("C11 [through the plugin interface] search of `{}` with the limit expiring at poll {k} hands the host {m}, which is not legal there (legal: [{}])", p.fen(), fmt_moves(&legal)) })
                        }
                        _ => {}
                    }
                    st.eval(1);
                }
            }
            st.class_n("directed: searches through the plugin's stable interface (named roots and positions where only an underpromotion mates)", roots.len() as u64 * 4);
            crate::c15::host_stage(&mut st, ctx.tier).map_err(|d| Fail { case: json!({"host_stage": true}), detail: d.replace("C15 ", "C11 ") })?;
        } else {
            st.class("front-end stage skipped: plugin not built");
        }
    }
    let mut g = Expand(ctx.wseed(1111));
    let mut made = 0;
    for _ in 0..400 {
        if made >= ctx.tier.pick(6, 60) {
            break;
        }
        let Some(p) = many_move_position(&mut g) else { continue };
        if p.legal().len() < 100 {
            continue;
        }
        made += 1;
        let c = fen_case(&p);
        ctx.about_to_run(&eng_json(&c));
        guarded(|| c11_case(&c, &mut st, 24)).unwrap_or_else(Err).map_err(|d| Fail { case: eng_json(&c), detail: d })?;
        st.class(if p.legal().len() > 128 { "directed: constructed position with more than 128 legal moves" } else { "directed: constructed position with 100..128 legal moves" });
    }
    Ok(())
}

pub const C11: CheckDef = CheckDef {
    id: "C11",
    worker: |ctx| {
        c11_directed(ctx)?;
        let dense = ctx.tier.pick(300, 800);
        ctx.max_shrink.set(40);
        run_proptest(ctx, 11, ctx.share(ctx.tier.pick(2_000, 30_000)), eng_strategy(22, 40), eng_json, move |c, st| c11_case(c, st, dense))
    },
    replay: |v| {
        if v.get("host_stage").is_some() {
            return crate::c15::host_stage(&mut Stats::new(), Tier::Quick);
        }
        if let Some(f) = v.get("plugin_evaluate").and_then(|x| x.as_str()) {
            let p = Pos::from_fen(f).ok_or("bad fen")?;
            let k = v["k"].as_u64().unwrap_or(0);
            if let Some(m) = crate::c15::plugin_evaluate(&p, k)? {
                if !p.legal().contains(&m) {
                    return Err(format!("C11 [through the plugin interface] search of `{f}` with the limit expiring at poll {k} hands the host {m}, which is not legal there"));
                }
            }
            return Ok(());
        }
        if let Some(us) = v.get("duration_timeout_us").and_then(|x| x.as_u64()) {
            let fen = v["fen"].as_str().ok_or("fen")?;
            let pos = Pos::from_fen(fen).ok_or("bad fen")?;
            let b = to_board(&pos)?;
            let t = chess_engine::DurationTimeout::new(std::time::Duration::from_micros(us));
            let mut e = chess_engine::Engine::default();
            e.positional = v.get("positional").and_then(|x| x.as_bool()).unwrap_or(false);
            let (mv, _) = crate::obs::search_plain(&mut e, &b, &ThreeFold::new(), &t).map_err(|d| format!("C11 search of `{fen}` under DurationTimeout of {us} us: {d}"))?;
            if let Some(m) = mv {
                if !pos.legal().contains(&from_cm(m)) {
                    return Err(format!("C11 illegal move {} under DurationTimeout", from_cm(m)));
                }
            }
            return Ok(());
        }
        c11_case(&eng_from(v)?, &mut Stats::new(), 1500)
    },
    rule: "case = position reached by a generated playout (optionally with the repetition table pre-filled along it); one instrumented unlimited run gives the poll counts s_1,s_2,s_3 at which deepening passes start; then the search is run with the limit first reporting expiry at poll k for EVERY k in 0..=min(s_2, 400 quick / 1500 thorough), s_i-3..s_i+3, generated values up to the total, and total+1. Oracle per k: returns within 10000 polls after expiry, no panic (for k <= 48, around every boundary and at the total also with INFO/DEBUG logging enabled and every event field formatted: same move, no panic), move is None or reference-legal, None when no legal move exists, Some when k >= s_1, Some is monotone in k. evaluations = (position,k) searches. Non-trivial = 0 < k < s_3 on a position whose first pass finished; distinct by (position key, k).",
    assumptions: &[
        "the engine consults the Timeout only through is_complete(); expiry is monotone (once true, always true)",
        "termination is decided as 'returns within 10000 further polls after expiry' (the code needs <= depth + 4)",
        "pass boundaries are observed through the engine's own 'start depth' debug event; if that line is removed the 'Some when k >= s_1' clause is dropped rather than alarming",
        "oracle: refchess legal-move set",
    ],
    exhaustive: |_| false,
    uses_reference: true,
    workers: |_| 0,
    known_signature: no_signature,
    profile: "release",
};

// ---------------------------------------------------------------------------------------
// C12

fn mating_moves(pos: &Pos, legal: &[Mv]) -> Vec<Mv> {
    legal
        .iter()
        .copied()
        .filter(|&m| {
            let n = pos.apply(m);
            n.in_check() && n.legal().is_empty()
        })
        .collect()
}

fn mate1_for(c: C) -> Score {
    match c {
        C::White => Score::WhiteMateIn(1),
        C::Black => Score::BlackMateIn(1),
    }
}

fn c12_case(c: &EngCase, st: &mut Stats) -> Result<(), String> {
    let Some(mut s) = setup(c, 32, st)? else { return Ok(()) };
    if s.pos.half >= 100 {
        // the game is already drawn by the clock: outside "can deliver checkmate"
        s.pos.half = 99;
        s.board = to_board(&s.pos)?;
    }
    // harvest: descendants (<= 2 plies) in which the side to move has exactly ONE legal move,
    // preferring those where that move mates -- a shape random generation practically never hits
    let mut forced_mate: Vec<Pos> = vec![];
    let mut forced_other: Vec<Pos> = vec![];
    if s.pos.men() <= 14 {
        let mut budget = 1500;
        'outer: for m1 in &s.legal {
            let q1 = s.pos.apply(*m1);
            let l1 = q1.legal();
            for q in std::iter::once(q1.clone()).chain(l1.iter().map(|m2| q1.apply(*m2))) {
                budget -= 1;
                if budget == 0 {
                    break 'outer;
                }
                let l = q.legal();
                if l.len() == 1 {
                    let n = q.apply(l[0]);
                    if n.in_check() && n.legal().is_empty() {
                        if forced_mate.len() < 3 {
                            forced_mate.push(q);
                        }
                    } else if forced_other.len() < 1 {
                        forced_other.push(q);
                    }
                }
            }
        }
    }
    for (q, cls) in forced_mate.into_iter().map(|q| (q, "harvested: single legal move, and it mates")).chain(forced_other.into_iter().map(|q| (q, "harvested: single legal move, not mate"))) {
        let mut q = q;
        if q.half >= 100 {
            q.half = 99;
        }
        let sub = Setup { board: to_board(&q)?, legal: q.legal(), pos: q, tf: ThreeFold::new() };
        st.class(cls);
        c12_eval(sub, false, st)?;
    }
    c12_eval(s, c.history, st)
}

fn c12_eval(mut s: Setup, history: bool, st: &mut Stats) -> Result<(), String> {
    let c_history = history;
    let fen = s.pos.fen();
    if s.legal.is_empty() {
        return Ok(());
    }
    let mates = mating_moves(&s.pos, &s.legal);
    // optionally make the position after a mating move "already seen twice": mate must
    // still win over the repetition draw
    if c_history && !mates.is_empty() {
        let after = to_board(&s.pos.apply(mates[0]))?;
        let _ = s.tf.add(after);
        let _ = s.tf.add(after);
        st.class("mated position pre-filled twice in the repetition table");
    }
    let prof = profile(&s.board, &s.tf, CAP, 3, false).map_err(|e| format!("C12 {}", search_err(e, &fen, CAP)))?;
    let want = mate1_for(s.pos.turn);
    let s1 = prof.starts.get(1).copied();
    let mut limits: Vec<u64> = vec![];
    if let Some(s1) = s1 {
        limits.extend([s1, s1 + 1, s1 + 7]);
    }
    if let Some(&s2) = prof.starts.get(2) {
        limits.extend([s2, s2 + 1]);
    }
    if prof.self_terminated {
        // the engine stopped by itself on a mate score: its last poll (index total-1) was the
        // end-of-pass check, so a limit expiring at poll `total` or later lets that pass finish
        limits.extend([prof.total_polls, prof.total_polls + 1]);
    }
    limits.push(CAP);
    for &k in &limits {
        let ((mv, score), depth, _, _) = if k == CAP { (prof.result, prof.max_depth, 0, false) } else { run_search(&s.board, &s.tf, k, false).map_err(|e| format!("C12 {}", search_err(e, &fen, k)))? };
        let is_m1 = score_eq(score, want);
        if !mates.is_empty() {
            if k == CAP && prof.hit_cap && s1.is_none() {
                st.class("mate available but first pass exceeded the poll cap (not a verdict)");
                continue;
            }
            if s1.is_none() && !prof.observer_missing && k == CAP && !prof.hit_cap {
                // the engine stopped by itself before any pass boundary: fine, judged below
            }
            let Some(m) = mv else {
                if prof.observer_missing {
                    continue;
                }
                return Err(format!("C12 `{fen}` has mate in one [{}] and the first pass finished (limit at poll {k}), but no move is returned", fmt_moves(&mates)));
            };
            let m = from_cm(m);
            if !mates.contains(&m) {
                return Err(format!("C12 `{fen}` has mate in one [{}], first pass finished (limit at poll {k}, depth {depth}) but the search returns {m} with score {score:+?}", fmt_moves(&mates)));
            }
            if !is_m1 {
                return Err(format!("C12 `{fen}`: the search returns the mating move {m} but reports {score:+?} instead of {want:+?} (limit at poll {k})"));
            }
        } else if is_m1 {
            let desc = mv.map(|m| from_cm(m).to_string()).unwrap_or("no move".into());
            return Err(format!("C12 `{fen}` has no mate in one, yet the search reports {score:+?} with {desc} (limit at poll {k}, depth {depth})"));
        }
        if let (Some(m), true) = (mv, is_m1) {
            if !mates.contains(&from_cm(m)) {
                return Err(format!("C12 `{fen}`: mate-in-one score reported with {} which does not checkmate", from_cm(m)));
            }
        }
        // the opponent's mate-in-one score can never be the verdict for the side to move at depth 0
        st.eval(1);
    }
    let checks = s.legal.iter().filter(|m| s.pos.apply(**m).in_check()).count();
    if !mates.is_empty() {
        st.class(if mates.len() == 1 { "one mating move" } else { "several mating moves" });
        let k0 = s.pos.kind(mates[0]);
        st.class(if k0.promotion { "mating move is a promotion" } else if k0.capture { "mating move is a capture" } else { "mating move is quiet" });
        if s.pos.half >= 98 {
            st.class("mate available with the half-move clock at 98..100");
        }
        st.nontrivial(digest(&(s.pos.key(), 1u8)));
        if st.want_sample() {
            st.sample(json!({"fen": fen, "mating_moves": fmt_moves(&mates), "returned": prof.result.0.map(|m| from_cm(m).to_string()), "score": format!("{:+?}", prof.result.1)}));
        }
    } else if checks > 0 {
        st.class("near miss: checks available, none mates");
        st.nontrivial(digest(&(s.pos.key(), 0u8)));
    } else {
        st.class("no check available");
    }
    Ok(())
}

/// positions harvested for mate-in-one density: sparse endings and mating nets, plus
/// tactical back-rank positions kept nearly intact (at most three random plies)
fn c12_strategy() -> impl Strategy<Value = EngCase> {
    let mate_root = prop_oneof![
        5 => (prop::collection::vec(any::<u8>(), 14..30), any::<bool>()).prop_map(|(a, mirror)| Root::Motif { kind: 9, a, mirror }),
        2 => synth_strategy(7).prop_map(Root::Synth),
        2 => root_strategy(12),
    ];
    let general = (mate_root, clocks_strategy(24), choices_strategy(24), any::<u64>(), prop::bool::weighted(0.25), prop_oneof![2 => Just(None), 1 => (96u8..=100).prop_map(Some)])
        .prop_map(|(root, (half, full), choices, aux, history, clock)| EngCase { play: PlayCase { root, half, full, choices, aux }, history, extra: vec![], clock });
    let tactical = ((prop::collection::vec(any::<u8>(), 32..44), any::<bool>()), prop::collection::vec((prop_oneof![3 => Just(0u8), 2 => Just(1u8), 1 => Just(6u8)], any::<u16>()), 0..=3), any::<u64>())
        .prop_map(|((a, mirror), choices, aux)| EngCase { play: PlayCase { root: Root::Motif { kind: 12, a, mirror }, half: 0, full: 0, choices, aux }, history: false, extra: vec![], clock: None });
    prop_oneof![3 => general, 2 => tactical]
}

/// directed C12 families that random generation does not reach:
///  (a) mates delivered by a CAPTURE that leaves only kings and minor pieces (the boundary
///      between the draw-by-material shortcut and mate detection);
///  (b) constructed many-move positions (the mating move may come very late in any move order).
/// a pawn on the seventh whose promotion square is a knight's jump from the enemy king, the
/// king hemmed in by its own men (candidate for "only a knight promotion mates")
fn underpromotion_candidate(g: &mut Expand) -> Option<Pos> {
    let mut p = Pos::empty();
    p.full = 1;
    p.turn = C::White;
    let f = g.below(8) as i8;
    let Some(pawn) = refchess::mk(f, 6) else { return None };
    p.sq[pawn as usize] = Some((C::White, P::Pawn));
    // promotion square: straight ahead (empty) or a capture on a neighbouring file
    let cap = g.below(3) == 0;
    let pf = if cap { f + if g.below(2) == 0 { 1 } else { -1 } } else { f };
    let Some(promo) = refchess::mk(pf, 7) else { return None };
    if cap {
        p.sq[promo as usize] = Some((C::Black, [P::Rook, P::Bishop, P::Knight, P::Queen][g.below(4) as usize]));
    }
    let (df, dr) = refchess::KN[g.below(8) as usize];
    let Some(bk) = refchess::mk(pf + df, 7 + dr) else { return None };
    if p.sq[bk as usize].is_some() {
        return None;
    }
    p.sq[bk as usize] = Some((C::Black, P::King));
    for (nf, nr) in refchess::KG {
        if let Some(s) = refchess::mk(refchess::fl(bk) + nf, refchess::rk(bk) + nr) {
            if p.sq[s as usize].is_none() && g.below(5) < 3 {
                let k = [P::Pawn, P::Knight, P::Bishop, P::Rook, P::Pawn][g.below(5) as usize];
                if k != P::Pawn || (1..=6).contains(&(s / 8)) {
                    p.sq[s as usize] = Some((C::Black, k));
                }
            }
        }
    }
    let wk = g.below(24) as u8;
    if p.sq[wk as usize].is_some() {
        return None;
    }
    p.sq[wk as usize] = Some((C::White, P::King));
    for _ in 0..g.below(3) {
        let s = g.below(64) as u8;
        if p.sq[s as usize].is_none() {
            p.sq[s as usize] = Some((C::White, [P::Bishop, P::Rook, P::Queen, P::Knight][g.below(4) as usize]));
            if !p.plausible() {
                p.sq[s as usize] = None;
            }
        }
    }
    if !p.plausible() {
        return None;
    }
    Some(p)
}

fn c12_directed(ctx: &WorkerCtx) -> Result<(), Fail> {
    let mut st = ctx.stats.borrow_mut();
    let mut g = Expand(ctx.wseed(1212));
    let tries = ctx.tier.pick(300_000u64, 3_000_000);
    let mut hits = 0u64;
    for _ in 0..tries {
        // black king on an edge, white king close, one or two white minors, one black unit
        let mut p = Pos::empty();
        p.full = 1;
        let e = g.below(28) as u8;
        let bk = match e {
            0..=7 => e,
            8..=15 => 56 + (e - 8),
            16..=21 => 8 * (1 + e - 16),
            _ => 8 * (1 + e - 22) + 7,
        };
        p.sq[bk as usize] = Some((C::Black, P::King));
        let near = |g: &mut Expand, c: u8, d: i8| -> Option<u8> {
            let f = refchess::fl(c) + (g.below(2 * d as u64 + 1) as i8 - d);
            let r = refchess::rk(c) + (g.below(2 * d as u64 + 1) as i8 - d);
            refchess::mk(f, r)
        };
        let Some(wk) = near(&mut g, bk, 2) else { continue };
        if p.sq[wk as usize].is_some() {
            continue;
        }
        p.sq[wk as usize] = Some((C::White, P::King));
        let minors = [[P::Knight, P::Knight], [P::Knight, P::Bishop], [P::Bishop, P::Knight], [P::Knight, P::Pawn]][g.below(4) as usize];
        let mut ok = true;
        for (i, m) in minors.iter().enumerate() {
            if i == 1 && g.below(3) == 0 {
                break;
            }
            if *m == P::Pawn {
                break;
            }
            match near(&mut g, bk, 3) {
                Some(s) if p.sq[s as usize].is_none() => p.sq[s as usize] = Some((C::White, *m)),
                _ => ok = false,
            }
        }
        let unit = [P::Pawn, P::Knight, P::Bishop, P::Rook, P::Queen, P::Pawn][g.below(6) as usize];
        match near(&mut g, bk, 2) {
            Some(s) if p.sq[s as usize].is_none() && (unit != P::Pawn || (1..=6).contains(&(s / 8))) => p.sq[s as usize] = Some((C::Black, unit)),
            _ => ok = false,
        }
        // sometimes a black minor of its own (K+N v K+N after the capture)
        if g.below(3) == 0 {
            if let Some(s) = near(&mut g, bk, 3) {
                if p.sq[s as usize].is_none() {
                    p.sq[s as usize] = Some((C::Black, P::Knight));
                }
            }
        }
        p.turn = C::White;
        if !ok || !p.plausible() {
            continue;
        }
        let legal = p.legal();
        let capture_mates = legal.iter().any(|m| {
            let n = p.apply(*m);
            p.kind(*m).capture && n.in_check() && n.legal().is_empty()
        });
        if !capture_mates {
            continue;
        }
        for q in [p.clone(), p.mirror()] {
            let sub = Setup { board: to_board(&q).map_err(|d| Fail { case: json!({"fen": q.fen()}), detail: d })?, legal: q.legal(), pos: q.clone(), tf: ThreeFold::new() };
            let case = fen_case(&q);
            {
                ctx.about_to_run(&eng_json(&case));
                guarded(|| c12_eval(sub, false, &mut st))
            }
            .unwrap_or_else(Err).map_err(|d| Fail { case: eng_json(&case), detail: d })?;
            hits += 1;
        }
    }
    st.class_n("directed: mate by a capture that leaves only kings and minor pieces", hits);
    // (a') underpromotion mates: a pawn on the seventh whose promotion to a KNIGHT mates (the
    // enemy king a knight's jump from the promotion square, hemmed in by its own men)
    let mut under = 0u64;
    for _ in 0..ctx.tier.pick(40_000u64, 1_000_000) {
        let Some(p) = underpromotion_candidate(&mut g) else { continue };
        let legal = p.legal();
        let mates = mating_moves(&p, &legal);
        if !mates.iter().any(|m| m.promo == Some(P::Knight)) {
            continue;
        }
        let only_under = mates.iter().all(|m| matches!(m.promo, Some(P::Knight) | Some(P::Bishop) | Some(P::Rook)));
        for q in [p.clone(), p.mirror()] {
            let sub = Setup { board: to_board(&q).map_err(|d| Fail { case: json!({"fen": q.fen()}), detail: d })?, legal: q.legal(), pos: q.clone(), tf: ThreeFold::new() };
            let case = fen_case(&q);
            {
                ctx.about_to_run(&eng_json(&case));
                guarded(|| c12_eval(sub, false, &mut st))
            }
            .unwrap_or_else(Err).map_err(|d| Fail { case: eng_json(&case), detail: d })?;
            under += 1;
        }
        if only_under {
            st.class("directed: the only mating moves are underpromotions");
        }
    }
    st.class_n("directed: knight-promotion mate available", under);
    // (a'') the same kind of position through the plugin's stable interface, asked twice on one
    // bot instance: first with a limit that expires at once, then with one that never expires.
    // The second search returns by itself (a mate ends the deepening), so it must bring a mating
    // move and the mate-in-one score, whatever the first question was answered with.
    if ctx.idx == 0 && crate::c15::plugin_available() {
        let mut asked = 0u64;
        let mut tries = 0;
        while asked < ctx.tier.pick(60, 600) && tries < 2_000_000 {
            tries += 1;
            let Some(p) = underpromotion_candidate(&mut g) else { continue };
            let legal = p.legal();
            let mates = mating_moves(&p, &legal);
            if mates.is_empty() {
                continue;
            }
            for q in [p.clone(), p.mirror()] {
                let ql = q.legal();
                let qm = mating_moves(&q, &ql);
                let case = json!({"plugin_session": q.fen()});
                ctx.about_to_run(&case);
                let r = guarded(|| crate::c15::plugin_session(&q, &[0, 3, u64::MAX / 4])).unwrap_or_else(Err).map_err(|d| Fail { case: case.clone(), detail: format!("C12 [plugin, one instance asked repeatedly] {d}") })?;
                let (mv, score, polls, expired) = r[2];
                if !expired {
                    let ok_move = mv.map_or(false, |m| qm.contains(&m));
                    if !ok_move || !score_eq(score, mate1_for(q.turn)) {
                        return Err(Fail {
                            case,
                            detail: format!(
                                "C12 [plugin, one instance asked repeatedly] `{}` has mate in one [{}]; asked with limits expiring at poll 0 and 3 and then with no limit, the last search returned by itself after {polls} polls with {:?} and score {score:?}",
                                q.fen(),
                                fmt_moves(&qm),
                                mv.map(|m| m.to_string())
                            ),
                        });
                    }
                }
                asked += 1;
            }
        }
        st.eval(asked);
        st.class_n("directed: mate in one asked three times on one plugin instance (limits 0, 3, none)", asked);
    }
    // (b') many-move positions whose every mating move comes late (index >= 120) in the order in
    // which the implementation's own iterator hands out moves (captures first, then the rest).
    // Found by a constructive search: start from a bare skeleton and keep adding white queens
    // on low squares (they come early in any square-ordered move list) as long as no early
    // mating move appears; accept when > 128 moves and at least one (late) mate exist.
    let order_of = |b: &Board| -> Vec<Mv> {
        let mut order: Vec<Mv> = vec![];
        let mut it = b.legals();
        it.set_mask(b[!b.turn()]);
        for m in &mut it {
            order.push(from_cm(m));
        }
        it.set_mask(!chess_bitboard::BitBoard::empty());
        for m in it {
            order.push(from_cm(m));
        }
        order
    };
    let first_mate = |p: &Pos| -> Option<(usize, usize, usize)> {
        let legal = p.legal();
        let mates = mating_moves(p, &legal);
        let b = to_board(p).ok()?;
        let order = order_of(&b);
        let first = mates.iter().filter_map(|m| order.iter().position(|x| x == m)).min().unwrap_or(usize::MAX);
        Some((legal.len(), mates.len(), first))
    };
    let mut late = 0;
    for _ in 0..ctx.tier.pick(40, 600) {
        if late >= ctx.tier.pick(3, 40) {
            break;
        }
        let mut p = Pos::empty();
        p.full = 1;
        p.turn = C::White;
        let bk = [63u8, 56, 62, 57][g.below(4) as usize];
        p.sq[bk as usize] = Some((C::Black, P::King));
        let wk = 16 + g.below(24) as u8;
        p.sq[wk as usize] = Some((C::White, P::King));
        if !p.plausible() {
            continue;
        }
        let mut stale = 0;
        while stale < 60 {
            let s = if g.below(4) == 0 { g.below(64) as u8 } else { g.below(40) as u8 };
            if p.sq[s as usize].is_some() {
                stale += 1;
                continue;
            }
            let mut q = p.clone();
            q.sq[s as usize] = Some((C::White, if g.below(7) == 0 { P::Rook } else { P::Queen }));
            if q.count(C::White) > 16 || !q.plausible() {
                stale += 1;
                continue;
            }
            let Some((n, nm, first)) = first_mate(&q) else { break };
            if nm > 0 && first < n.min(128) * 9 / 10 {
                stale += 1;
                continue;
            }
            p = q;
            stale = 0;
            if n > 128 && nm > 0 && first >= 120 {
                break;
            }
        }
        let Some((n, nm, first)) = first_mate(&p) else { continue };
        if !(n > 128 && nm > 0 && first >= 120) {
            continue;
        }
        late += 1;
        for q in [p.clone(), p.mirror()] {
            let sub = Setup { board: to_board(&q).map_err(|d| Fail { case: json!({"fen": q.fen()}), detail: d })?, legal: q.legal(), pos: q.clone(), tf: ThreeFold::new() };
            let case = fen_case(&q);
            {
                ctx.about_to_run(&eng_json(&case));
                guarded(|| c12_eval(sub, false, &mut st))
            }
            .unwrap_or_else(Err).map_err(|d| Fail { case: eng_json(&case), detail: d })?;
        }
        st.class("directed: > 128 legal moves and every mating move late in iteration order");
    }
    // (b) many-move positions
    let mut made = 0;
    for _ in 0..4000 {
        if made >= ctx.tier.pick(12, 200) {
            break;
        }
        let Some(p) = many_move_position(&mut g) else { continue };
        let legal = p.legal();
        if legal.len() <= 128 {
            continue;
        }
        made += 1;
        let sub = Setup { board: to_board(&p).map_err(|d| Fail { case: json!({"fen": p.fen()}), detail: d })?, legal, pos: p.clone(), tf: ThreeFold::new() };
        let case = fen_case(&p);
        {
                ctx.about_to_run(&eng_json(&case));
                guarded(|| c12_eval(sub, false, &mut st))
            }
            .unwrap_or_else(Err).map_err(|d| Fail { case: eng_json(&case), detail: d })?;
        st.class("directed: constructed position with more than 128 legal moves");
    }
    Ok(())
}

fn c12_plugin_session_replay(fen: &str) -> Result<(), String> {
    let q = Pos::from_fen(fen).ok_or("bad fen")?;
    let ql = q.legal();
    let qm = mating_moves(&q, &ql);
    let r = crate::c15::plugin_session(&q, &[0, 3, u64::MAX / 4])?;
    let (mv, score, polls, expired) = r[2];
    if !expired && !qm.is_empty() && (!mv.map_or(false, |m| qm.contains(&m)) || !score_eq(score, mate1_for(q.turn))) {
        return Err(format!("C12 [plugin, one instance asked repeatedly] `{fen}` has mate in one [{}]; the unlimited third search returned by itself after {polls} polls with {:?} and score {score:?}", fmt_moves(&qm), mv.map(|m| m.to_string())));
    }
    Ok(())
}

pub const C12: CheckDef = CheckDef {
    id: "C12",
    worker: |ctx| { c12_directed(ctx)?; ctx.max_shrink.set(400); run_proptest(ctx, 12, ctx.share(ctx.tier.pick(40_000, 1_500_000)), c12_strategy(), eng_json, c12_case) },
    replay: |v| {
        if let Some(f) = v.get("plugin_session").and_then(|x| x.as_str()) {
            return c12_plugin_session_replay(f);
        }
        c12_case(&eng_from(v)?, &mut Stats::new())
    },
    rule: "positions from mating-net constructors (lone king on an edge vs king + 1-3 heavy/minor pieces + scattered material), sparse synthetic placements and general roots, followed by playouts; half-move clock forced to 96..100 in a third of the cases; optionally the mated position pre-filled twice in the repetition table. The reference enumerates the mating moves. With the limit expiring at s_1, s_1+1, s_1+7, s_2, s_2+1 and never: positions WITH a mate in one must return a mating move and the mover's MateIn(1) score; positions WITHOUT must never report the mover's MateIn(1); a MateIn(1) score always comes with a move that mates. Through the plugin's stable interface, mate-in-one positions are asked three times on one bot instance (limits 0, 3, none): the unlimited search must bring the mate. Non-trivial = position with a mate in one, or with a check that is not mate; distinct by position key.",
    assumptions: &["oracle: refchess (mating move = legal move after which the opponent is in check and has no legal move)", "pass boundaries from the 'start depth' event as in C11"],
    exhaustive: |_| false,
    uses_reference: true,
    workers: |_| 0,
    known_signature: no_signature,
    profile: "release",
};

// ---------------------------------------------------------------------------------------
// C13

fn c13_case(c: &EngCase, st: &mut Stats) -> Result<(), String> {
    let Some(s) = setup(c, 20, st)? else { return Ok(()) };
    if s.legal.is_empty() || s.legal.iter().any(|m| m.promo.is_some()) {
        if !st.frozen {
            st.class("skipped: no legal move or a promotion at the root (outside the property's domain)");
        }
        return Ok(());
    }
    let fen = s.pos.fen();
    let mp = s.pos.mirror();
    let mb = to_board(&mp)?;
    let tf = ThreeFold::new();
    let pa = profile(&s.board, &tf, CAP, 4, false).map_err(|e| format!("C13 {}", search_err(e, &fen, CAP)))?;
    let pb = profile(&mb, &tf, CAP, 4, false).map_err(|e| format!("C13 {}", search_err(e, &mp.fen(), CAP)))?;
    if (pa.observer_missing && !pa.boundaries_by_bisection) || (pb.observer_missing && !pb.boundaries_by_bisection) {
        st.class("pass boundaries unavailable");
        return Ok(());
    }
    if pa.boundaries_by_bisection {
        st.class("pass boundaries recovered by bisection (the 'start depth' log line is missing)");
    }
    let depths = pa.starts.len().min(pb.starts.len());
    // depth d is complete in both iff both have a start for pass d+1
    for d in 0..depths.saturating_sub(1) {
        let (ka, kb) = (pa.starts[d + 1], pb.starts[d + 1]);
        let ((_, sa), da, _, _) = run_search(&s.board, &tf, ka, false).map_err(|e| format!("C13 {}", search_err(e, &fen, ka)))?;
        let ((_, sb), db, _, _) = run_search(&mb, &tf, kb, false).map_err(|e| format!("C13 {}", search_err(e, &mp.fen(), kb)))?;
        if da as usize != d || db as usize != d {
            // a mate score ends the deepening early; compare whatever both committed at the same depth
            if da != db {
                st.class("depths not comparable (early stop)");
                continue;
            }
        }
        if !score_eq(negate(sa), sb) {
            return Err(format!("C13 depth {d}: `{fen}` scores {sa:+?} but its mirror image `{}` scores {sb:+?} (expected {:+?})", mp.fen(), negate(sa)));
        }
        st.eval(1);
        let nz = !matches!(sa, Score::Raw(0));
        if d >= 1 || nz {
            st.nontrivial(digest(&(s.pos.key(), d)));
        }
        st.class(&format!("compared at depth {d}"));
        if matches!(sa, Score::WhiteMateIn(_) | Score::BlackMateIn(_)) {
            st.class("mate score compared");
        }
    }
    // a mate score ends the deepening by itself: there is no later pass boundary to cut at, so
    // the final results of the two unlimited runs are compared when both stopped by themselves
    // after the same number of passes
    if pa.self_terminated && pb.self_terminated {
        if pa.max_depth == pb.max_depth && pa.starts.len() == pb.starts.len() {
            let (sa, sb) = (pa.result.1, pb.result.1);
            if !score_eq(negate(sa), sb) {
                return Err(format!(
                    "C13 final result after {} pass(es): `{fen}` scores {sa:+?} but its mirror image `{}` scores {sb:+?} (expected {:+?})",
                    pa.starts.len(),
                    mp.fen(),
                    negate(sa)
                ));
            }
            st.eval(1);
            st.nontrivial(digest(&(s.pos.key(), 99u8)));
            st.class("self-terminated (mate score) results compared");
        } else {
            return Err(format!(
                "C13 `{fen}` stops by itself after {} pass(es) with {:+?}, its mirror image `{}` after {} pass(es) with {:+?}",
                pa.starts.len(),
                pa.result.1,
                mp.fen(),
                pb.starts.len(),
                pb.result.1
            ));
        }
    } else if pa.self_terminated != pb.self_terminated && !pa.hit_cap && !pb.hit_cap {
        return Err(format!("C13 only one of `{fen}` and its mirror image `{}` ends the deepening by itself (scores {:+?} / {:+?})", mp.fen(), pa.result.1, pb.result.1));
    }
    if st.want_sample() {
        st.sample(json!({"fen": fen, "mirror": mp.fen(), "pass_starts": pa.starts, "mirror_pass_starts": pb.starts}));
    }
    Ok(())
}

pub const C13: CheckDef = CheckDef {
    id: "C13",
    worker: |ctx| {
        ctx.max_shrink.set(300);
        // half of the positions come from the general generator, half from mating nets and
        // sparse material (forced mates of different lengths, draw-by-material captures)
        run_proptest(ctx, 13, ctx.share(ctx.tier.pick(12_000, 200_000)), eng_strategy(18, 40), eng_json, c13_case)?;
        run_proptest(ctx, 113, ctx.share(ctx.tier.pick(16_000, 250_000)), c12_strategy(), eng_json, c13_case)
    },
    replay: |v| c13_case(&eng_from(v)?, &mut Stats::new()),
    rule: "metamorphic: position P (<= 20 men, no promotion move at the root, empty repetition history, Engine::default()) and mirror(P) (colours swapped, ranks flipped, rights swapped, same marker file) are each searched under their OWN pass boundaries; for every depth d both complete within the poll cap, the score committed with the limit at s_{d+1} must satisfy score(mirror) = negate(score(P)). When both searches end the deepening by themselves (mate score) their final scores and pass counts are compared too. Moves are not compared (tie-breaking may differ). evaluations = depth comparisons. Non-trivial = depth >= 1 or a non-zero score; distinct by (position key, depth).",
    assumptions: &["scores only: square iteration order is not mirror-invariant, so the chosen move may legitimately differ between equal-scoring moves", "pass boundaries from the 'start depth' event as in C11"],
    exhaustive: |_| false,
    uses_reference: true,
    workers: |_| 0,
    known_signature: no_signature,
    profile: "release",
};
