//! C18: bitboards behave as sets of squares. Model: `[bool; 64]` with file/rank arithmetic.

use crate::fw::*;
use chess_bitboard as bb;
use chess_bitboard::BitBoard;
use proptest::prelude::*;
use refchess::{fl, mk, rk};
use serde::{Deserialize, Serialize};
use serde_json::{json, Value};

type Set = [bool; 64];

fn set_from(x: u64) -> Set {
    let mut s = [false; 64];
    for i in 0..64 {
        s[i] = x >> i & 1 == 1;
    }
    s
}
fn enc(s: &Set) -> u64 {
    (0..64).filter(|&i| s[i]).fold(0u64, |a, i| a | 1u64 << i)
}
fn map_sq(s: &Set, f: impl Fn(u8) -> Option<u8>) -> Set {
    let mut o = [false; 64];
    for i in 0..64u8 {
        if s[i as usize] {
            if let Some(t) = f(i) {
                o[t as usize] = true;
            }
        }
    }
    o
}
fn psq(s: u8) -> bb::Pos {
    bb::Pos::from_u8(s).unwrap()
}
fn elems(s: &Set) -> Vec<u8> {
    (0..64u8).filter(|&i| s[i as usize]).collect()
}

fn unary(x: u64) -> Result<(), String> {
    let b = BitBoard::from_u64(x);
    let m = set_from(x);
    let ck = |what: &str, got: u64, want: &Set| -> Result<(), String> {
        if got != enc(want) {
            Err(format!("C18 {what} of {x:#018x} = {got:#018x}, set model gives {:#018x}", enc(want)))
        } else {
            Ok(())
        }
    };
    if b.to_u64() != x || BitBoard::from(x) != b {
        return Err(format!("C18 from_u64/to_u64 not inverse on {x:#x}"));
    }
    ck("shift_up", b.shift_up().to_u64(), &map_sq(&m, |s| mk(fl(s), rk(s) + 1)))?;
    ck("shift_down", b.shift_down().to_u64(), &map_sq(&m, |s| mk(fl(s), rk(s) - 1)))?;
    ck("shift_left", b.shift_left().to_u64(), &map_sq(&m, |s| mk(fl(s) - 1, rk(s))))?;
    ck("shift_right", b.shift_right().to_u64(), &map_sq(&m, |s| mk(fl(s) + 1, rk(s))))?;
    ck("flip_ranks", b.flip_ranks().to_u64(), &map_sq(&m, |s| mk(fl(s), 7 - rk(s))))?;
    let mut comp = m;
    for v in comp.iter_mut() {
        *v = !*v;
    }
    ck("not()", b.not().to_u64(), &comp)?;
    ck("operator !", (!b).to_u64(), &comp)?;
    let n = elems(&m).len();
    if b.count() as usize != n {
        return Err(format!("C18 count({x:#x}) = {}, model {n}", b.count()));
    }
    if b.any() != (n > 0) || b.none() != (n == 0) || b.all() != (n == 64) || b.some() != (n < 64) {
        return Err(format!("C18 any/none/all/some wrong on {x:#x}"));
    }
    for s in 0..64u8 {
        if b.contains(psq(s)) != m[s as usize] {
            return Err(format!("C18 contains({}) wrong on {x:#x}", refchess::sq_name(s)));
        }
        let mut w = m;
        w[s as usize] = true;
        let mut c = m;
        c[s as usize] = false;
        ck(&format!("with({s})"), b.with(psq(s)).to_u64(), &w)?;
        ck(&format!("cleared({s})"), b.cleared(psq(s)).to_u64(), &c)?;
        ck(&format!("- Pos({s})"), (b - psq(s)).to_u64(), &c)?;
        let mut t = b;
        t.set(psq(s));
        ck(&format!("set({s})"), t.to_u64(), &w)?;
        let mut t = b;
        t.clear(psq(s));
        ck(&format!("clear({s})"), t.to_u64(), &c)?;
        let mut t = b;
        t -= psq(s);
        ck(&format!("-= Pos({s})"), t.to_u64(), &c)?;
    }
    // pop: lowest square first, until empty
    let mut t = b;
    let mut rest = elems(&m);
    loop {
        let got = t.pop().map(|p| p as u8);
        let want = if rest.is_empty() { None } else { Some(rest.remove(0)) };
        if got != want {
            return Err(format!("C18 pop on {x:#x}: got {got:?}, model {want:?}"));
        }
        let mut r = [false; 64];
        for e in &rest {
            r[*e as usize] = true;
        }
        if t.to_u64() != enc(&r) {
            return Err(format!("C18 pop on {x:#x} leaves {:#x}, model {:#x}", t.to_u64(), enc(&r)));
        }
        if got.is_none() {
            break;
        }
    }
    // iteration: ascending, exact size hints; both FromIterators invert it
    let mut it = b.iter();
    let all = elems(&m);
    for (i, want) in all.iter().enumerate() {
        if it.size_hint() != (all.len() - i, Some(all.len() - i)) {
            return Err(format!("C18 size_hint on {x:#x} after {i} items = {:?}", it.size_hint()));
        }
        let got = it.next().map(|p| p as u8);
        if got != Some(*want) {
            return Err(format!("C18 iteration of {x:#x}: item {i} = {got:?}, model {want}"));
        }
    }
    if it.next().is_some() || it.size_hint() != (0, Some(0)) {
        return Err(format!("C18 iteration of {x:#x} does not end"));
    }
    let collected: BitBoard = b.into_iter().collect();
    let collected2: BitBoard = b.iter().map(BitBoard::from_pos).collect();
    if collected != b || collected2 != b {
        return Err(format!("C18 FromIterator does not rebuild {x:#x}"));
    }
    Ok(())
}

fn binary(x: u64, y: u64) -> Result<(), String> {
    let (a, b) = (BitBoard::from_u64(x), BitBoard::from_u64(y));
    let (ma, mb) = (set_from(x), set_from(y));
    let zip = |f: fn(bool, bool) -> bool| -> u64 {
        let mut o = [false; 64];
        for i in 0..64 {
            o[i] = f(ma[i], mb[i]);
        }
        enc(&o)
    };
    let table: [(&str, u64, u64, u64, fn(bool, bool) -> bool); 4] = [
        ("union", (a | b).to_u64(), a.or(b).to_u64(), { let mut t = a; t |= b; t.to_u64() }, |p, q| p || q),
        ("intersection", (a & b).to_u64(), a.and(b).to_u64(), { let mut t = a; t &= b; t.to_u64() }, |p, q| p && q),
        ("symmetric difference", (a ^ b).to_u64(), a.xor(b).to_u64(), { let mut t = a; t ^= b; t.to_u64() }, |p, q| p != q),
        ("difference", (a - b).to_u64(), a.diff(b).to_u64(), { let mut t = a; t -= b; t.to_u64() }, |p, q| p && !q),
    ];
    for (name, op, method, assign, f) in table {
        let want = zip(f);
        if op != want || method != want || assign != want {
            return Err(format!("C18 {name} of {x:#018x} and {y:#018x}: operator {op:#x}, method {method:#x}, assign {assign:#x}, set model {want:#x}"));
        }
    }
    if (a == b) != (x == y) {
        return Err("C18 equality".into());
    }
    // collection from iterators is insertion (set union), also when squares / boards repeat
    let want = zip(|p, q| p || q);
    let from_pos: BitBoard = a.iter().chain(b.iter()).chain(a.iter()).collect();
    if from_pos.to_u64() != want {
        return Err(format!("C18 collecting the squares of {x:#018x} then {y:#018x} then {x:#018x} again gives {:#018x}, the set union is {want:#018x}", from_pos.to_u64()));
    }
    // ... also through adaptors whose size_hint lower bound is 0 although they yield squares
    let via_filter: BitBoard = a.iter().chain(b.iter()).filter(|_| true).collect();
    let via_flat: BitBoard = [a, b].into_iter().flat_map(|x| x.iter()).collect();
    let mut src = a.iter().chain(b.iter());
    let via_from_fn: BitBoard = std::iter::from_fn(|| src.next()).collect();
    let via_take_while: BitBoard = a.iter().chain(b.iter()).take_while(|_| true).collect();
    for (name, got) in [("filter", via_filter), ("flat_map", via_flat), ("from_fn", via_from_fn), ("take_while", via_take_while)] {
        if got.to_u64() != want {
            return Err(format!("C18 collecting the squares of {x:#018x} and {y:#018x} through `{name}` gives {:#018x}, the set union is {want:#018x}", got.to_u64()));
        }
    }
    let boards_filter: BitBoard = [a, b].into_iter().filter(|_| true).collect();
    if boards_filter.to_u64() != want {
        return Err(format!("C18 collecting the boards {x:#018x}, {y:#018x} through `filter` gives {:#018x}, the set union is {want:#018x}", boards_filter.to_u64()));
    }
    let from_boards: BitBoard = [a, b, a, b].into_iter().collect();
    if from_boards.to_u64() != want {
        return Err(format!("C18 collecting the boards {x:#018x}, {y:#018x} twice gives {:#018x}, the set union is {want:#018x}", from_boards.to_u64()));
    }
    Ok(())
}

fn constructors() -> Result<(), String> {
    for s in 0..64u8 {
        let want = 1u64 << s;
        if BitBoard::from_pos(psq(s)).to_u64() != want || BitBoard::from(psq(s)).to_u64() != want || BitBoard::from(Some(psq(s))).to_u64() != want {
            return Err(format!("C18 from_pos({s})"));
        }
    }
    for f in 0..8u8 {
        let want = (0..64u8).filter(|&t| fl(t) == f as i8).fold(0u64, |a, t| a | 1u64 << t);
        let file = bb::File::from_u8(f).unwrap();
        if BitBoard::from_file(file).to_u64() != want || BitBoard::from(file).to_u64() != want {
            return Err(format!("C18 from_file({f})"));
        }
        let want = (0..64u8).filter(|&t| rk(t) == f as i8).fold(0u64, |a, t| a | 1u64 << t);
        let rank = bb::Rank::from_u8(f).unwrap();
        if BitBoard::from_rank(rank).to_u64() != want || BitBoard::from(rank).to_u64() != want {
            return Err(format!("C18 from_rank({f})"));
        }
    }
    if BitBoard::empty().to_u64() != 0 || BitBoard::from(None::<bb::Pos>).to_u64() != 0 {
        return Err("C18 empty()".into());
    }
    Ok(())
}

#[derive(Clone, Debug, Serialize, Deserialize)]
pub enum IterOp {
    Next,
    Nth(u64),
    Clone,
    Skip(u64),
    StepBy(u64),
    Count,
    Last,
}

#[derive(Clone, Debug, Serialize, Deserialize)]
pub struct IterCase {
    pub board: u64,
    pub ops: Vec<IterOp>,
}

fn iter_consumers(x: u64) -> Result<(u64, u64), String> {
    let squares: Vec<bb::Pos> = (0..64u8).filter(|s| x >> s & 1 == 1).map(|s| bb::Pos::from_u8(s).unwrap()).collect();
    crate::itermodel::all_states_fwd_with(&format!("C18 BitBoard({x:#018x}).iter()"), || BitBoard::from_u64(x).iter(), &squares, true, &|n, s, a, b| crate::itermodel::ord_consumers(n, s, a, b))
}

fn iter_case(c: &IterCase, st: &mut Stats) -> Result<(), String> {
    let mut it = BitBoard::from_u64(c.board).iter();
    let mut model: Vec<u8> = elems(&set_from(c.board));
    let mut nt = model.len() >= 2;
    for (i, op) in c.ops.iter().enumerate() {
        let ctx = |s: String| format!("C18 iterator over {:#018x}, op #{i} {op:?}: {s}", c.board);
        match op {
            IterOp::Next => {
                let got = it.next().map(|p| p as u8);
                let want = if model.is_empty() { None } else { Some(model.remove(0)) };
                if got != want {
                    return Err(ctx(format!("got {got:?}, model {want:?}")));
                }
            }
            IterOp::Nth(n) => {
                let n = *n as usize;
                let got = it.nth(n).map(|p| p as u8);
                // Iterator::nth: the n-th remaining element, consuming it and all before it;
                // None (and everything consumed) when fewer than n+1 remain
                let want = if n < model.len() {
                    let w = model[n];
                    model.drain(..=n);
                    Some(w)
                } else {
                    nt = true;
                    model.clear();
                    None
                };
                if got != want {
                    return Err(ctx(format!("got {got:?}, model {want:?}")));
                }
            }
            IterOp::Clone => {
                let cl = it.clone();
                let rest: Vec<u8> = cl.map(|p| p as u8).collect();
                if rest != model {
                    return Err(ctx(format!("clone yields {rest:?}, model {model:?}")));
                }
            }
            IterOp::Skip(n) => {
                let rest: Vec<u8> = it.clone().skip(*n as usize).map(|p| p as u8).collect();
                let want: Vec<u8> = model.iter().copied().skip(*n as usize).collect();
                if rest != want {
                    return Err(ctx(format!("skip yields {rest:?}, model {want:?}")));
                }
                if *n as usize >= model.len() {
                    nt = true;
                }
            }
            IterOp::StepBy(k) => {
                let k = (*k as usize).max(1);
                let rest: Vec<u8> = it.clone().step_by(k).map(|p| p as u8).collect();
                let want: Vec<u8> = model.iter().copied().step_by(k).collect();
                if rest != want {
                    return Err(ctx(format!("step_by yields {rest:?}, model {want:?}")));
                }
            }
            IterOp::Count => {
                if it.clone().count() != model.len() {
                    return Err(ctx("count".into()));
                }
            }
            IterOp::Last => {
                if it.clone().last().map(|p| p as u8) != model.last().copied() {
                    return Err(ctx("last".into()));
                }
            }
        }
        let sh = it.size_hint();
        if sh != (model.len(), Some(model.len())) {
            return Err(ctx(format!("size_hint afterwards = {sh:?}, model has {} left", model.len())));
        }
        let left: Vec<u8> = it.clone().map(|p| p as u8).collect();
        if left != model {
            return Err(ctx(format!("remaining elements {left:?}, model {model:?}")));
        }
    }
    st.eval(c.ops.len() as u64 + 1);
    if nt {
        st.nontrivial(digest(&(c.board, format!("{:?}", c.ops))));
        if st.want_sample() {
            st.sample(json!({"board": format!("{:#018x}", c.board), "ops": format!("{:?}", c.ops)}));
        }
    }
    Ok(())
}

fn edge_u64() -> impl Strategy<Value = u64> {
    prop_oneof![
        4 => any::<u64>(),
        2 => (any::<u64>(), any::<u64>()).prop_map(|(a, b)| a & b),
        2 => (any::<u64>(), any::<u64>(), any::<u64>()).prop_map(|(a, b, c)| a & b & c),
        1 => (any::<u64>(), any::<u64>()).prop_map(|(a, b)| a | b),
        1 => (0u32..64).prop_map(|s| 1u64 << s),
        1 => (0u32..64, 0u32..64).prop_map(|(s, t)| 1u64 << s | 1u64 << t),
        1 => prop_oneof![Just(0u64), Just(u64::MAX), Just(1u64), Just(1u64 << 63), Just(0xffu64), Just(0x0101010101010101u64)],
    ]
}

fn op_strategy() -> impl Strategy<Value = IterOp> {
    let n = prop_oneof![
        6 => 0u64..=70,
        1 => prop_oneof![Just(63u64), Just(64), Just(65), Just(127), Just(128), Just(1u64 << 32), Just(u64::MAX), Just(u64::MAX - 1), Just(1u64 << 63)],
    ];
    prop_oneof![
        4 => Just(IterOp::Next),
        4 => n.clone().prop_map(IterOp::Nth),
        1 => Just(IterOp::Clone),
        2 => n.prop_map(IterOp::Skip),
        1 => (1u64..=70).prop_map(IterOp::StepBy),
        1 => Just(IterOp::Count),
        1 => Just(IterOp::Last),
    ]
}

fn structured_boards() -> Vec<u64> {
    let mut v = vec![0u64, u64::MAX];
    for s in 0..64 {
        v.push(1u64 << s);
    }
    for s in 0..64 {
        for t in s + 1..64 {
            v.push(1u64 << s | 1u64 << t);
        }
    }
    for f in 0..8 {
        v.push(0x0101010101010101u64 << f);
        v.push(0xffu64 << (8 * f));
    }
    let n = v.len();
    for i in 0..n {
        v.push(!v[i]);
    }
    v.sort();
    v.dedup();
    v
}

fn worker(ctx: &WorkerCtx) -> Result<(), Fail> {
    let fail1 = |x: u64, d: String| Fail { case: json!({"unary": format!("{x:#x}")}), detail: d };
    let fail2 = |x: u64, y: u64, d: String| Fail { case: json!({"binary": [format!("{x:#x}"), format!("{y:#x}")]}), detail: d };
    {
        let mut st = ctx.stats.borrow_mut();
        if ctx.idx == 0 {
            guarded(constructors).unwrap_or_else(Err).map_err(|d| Fail { case: json!({"constructors": true}), detail: d })?;
            st.eval(81);
        }
        let boards = structured_boards();
        for (i, &x) in boards.iter().enumerate() {
            if !ctx.mine(i as u64) {
                continue;
            }
            guarded(|| unary(x)).unwrap_or_else(Err).map_err(|d| fail1(x, d))?;
            st.eval(1);
            if x.count_ones() >= 2 {
                st.nontrivial(mix(18, x));
            }
        }
        st.class("structured boards, all unary operations");
        // the bitboard iterator against a slice iterator over the squares of the set: every
        // provided Iterator method in every consumed-prefix state
        let mut g = Expand(ctx.wseed(1818));
        let mut sel: Vec<u64> = boards.iter().copied().filter(|x| x.count_ones() <= 8).collect();
        sel.extend([u64::MAX, !1u64, !(1u64 << 63), 0x7fff_ffff_ffff_fffe, 0xaaaa_aaaa_aaaa_aaaa, 0x8000_0000_0000_0001]);
        for _ in 0..ctx.tier.pick(64, 2000) {
            sel.push(g.next() & g.next() & g.next());
        }
        let (mut states, mut calls) = (0u64, 0u64);
        for (i, &x) in sel.iter().enumerate() {
            if !ctx.mine(i as u64 + 5) {
                continue;
            }
            let r = guarded(|| iter_consumers(x)).unwrap_or_else(Err).map_err(|d| Fail { case: json!({"iter_consumers": format!("{x:#x}")}), detail: d })?;
            states += r.0;
            calls += r.1;
        }
        st.eval(calls);
        st.class_n("bitboard iterator consumption states in which every provided Iterator method was compared with a slice iterator", states);
        // binary operations: all ordered pairs of a core set (empty, full, singles, files, ranks and
        // complements); thorough: every structured board against the core set
        let core: Vec<u64> = boards.iter().copied().filter(|x| x.count_ones() <= 1 || x.count_ones() >= 63 || x.count_ones() == 8 || x.count_ones() == 56).collect();
        let left: &[u64] = if ctx.tier == Tier::Thorough { &boards } else { &core };
        for (i, &x) in left.iter().enumerate() {
            if !ctx.mine(i as u64) {
                continue;
            }
            for &y in &core {
                guarded(|| binary(x, y)).unwrap_or_else(Err).map_err(|d| fail2(x, y, d))?;
                st.eval(1);
                st.nontrivial(mix(x, y));
            }
        }
        st.class("structured pairs, all binary operations");
        // generated boards
        let mut g = Expand(ctx.wseed(18));
        let n = ctx.share(ctx.tier.pick(200_000, 2_000_000));
        for k in 0..n {
            let x = match k % 3 {
                0 => g.next(),
                1 => g.next() & g.next(),
                _ => g.next() | g.next(),
            };
            let y = if k % 2 == 0 { g.next() } else { g.next() & g.next() };
            guarded(|| unary(x)).unwrap_or_else(Err).map_err(|d| fail1(x, d))?;
            guarded(|| binary(x, y)).unwrap_or_else(Err).map_err(|d| fail2(x, y, d))?;
            st.eval(2);
            if k < 100_000 {
                st.nontrivial(mix(x, y));
            }
        }
        st.class_n("generated boards (unary + binary)", n);
    }
    let strat = (edge_u64(), prop::collection::vec(op_strategy(), 1..12)).prop_map(|(board, ops)| IterCase { board, ops });
    run_proptest(ctx, 18, ctx.share(ctx.tier.pick(1_500_000, 20_000_000)), strat, |c| serde_json::to_value(c).unwrap(), iter_case)
}

fn parse_hex(v: &Value) -> Result<u64, String> {
    u64::from_str_radix(v.as_str().ok_or("hex")?.trim_start_matches("0x"), 16).map_err(|e| e.to_string())
}

fn replay(v: &Value) -> Result<(), String> {
    if v.get("constructors").is_some() {
        return constructors();
    }
    if let Some(x) = v.get("iter_consumers") {
        return iter_consumers(parse_hex(x)?).map(|_| ());
    }
    if let Some(x) = v.get("unary") {
        return unary(parse_hex(x)?);
    }
    if let Some(a) = v.get("binary") {
        return binary(parse_hex(&a[0])?, parse_hex(&a[1])?);
    }
    let c: IterCase = serde_json::from_value(v.clone()).map_err(|e| e.to_string())?;
    iter_case(&c, &mut Stats::new())
}

pub const C18: CheckDef = CheckDef {
    id: "C18",
    worker,
    replay,
    rule: "exhaustive over empty, full, 64 singletons, 2016 pairs, 8 files, 8 ranks and all their complements for every unary operation (constructors, membership, with/cleared/set/clear for each of 64 squares, four shifts, rank flip, complement, counts, pop sequence, iteration order and size hints, both FromIterators), all ordered pairs of a core set for | & ^ - and assign/method forms; generated 64-bit boards of varying density; proptest op lists over the iterator (next, nth(n) for n in 0..=70 and {63,64,65,127,128,2^32,2^63,usize::MAX}, clone, skip, step_by, count, last) against a Vec model, checking the remainder after every op; for small, extreme and generated sparse boards every provided Iterator method (count, last, nth, fold, try_fold, min, max, position, find, skip, take, step_by, chain, zip, ...) in every consumed-prefix state against a slice iterator over the squares. Non-trivial = board with >= 2 squares or an nth/skip beyond the remaining length; distinct by (board, ops).",
    assumptions: &["model: [bool;64] with file/rank arithmetic; bit i <-> square i is the shared numbering", "Iterator::nth is held to the std contract (returns the n-th remaining element, consumes it and everything before it; None exhausts the iterator), which skip/step_by rely on", "all 2^64 boards are not enumerated: every operation acts square-wise, structured boards are complete, the rest is sampled"],
    exhaustive: |_| false,
    uses_reference: false,
    workers: |_| 0,
    known_signature: no_signature,
    profile: "release",
};
