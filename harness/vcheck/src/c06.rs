//! C06: FEN parsing is total and admits only playable positions (parser and builder).

use crate::conv::*;
use crate::fw::*;
use crate::gen::*;
use crate::play::apply_clocks;
use chess_bitboard as bb;
use chess_movegen::fen::{parse_fen, ParseFenError};
use chess_movegen::Board;
use proptest::prelude::*;
use refchess::{Pos, C, P};
use serde::{Deserialize, Serialize};
use serde_json::{json, Value};

#[derive(Clone, Debug, Serialize, Deserialize, PartialEq)]
pub enum BOp {
    Place(u8, u8),
    Remove(u8),
    Turn(bool),
    Ep(Option<u8>),
    Half(u16),
    Full(u16),
}

#[derive(Clone, Debug, Serialize, Deserialize)]
pub enum FenCase {
    Raw(Vec<u8>),
    Soup(Vec<u8>),
    /// field-structured soup: eight rank strings built from run/piece tokens, then one token per field
    Fields { ranks: Vec<Vec<u8>>, turn: u8, rights: u8, ep: u8, half: u8, full: u8, sep: u8 },
    Edited { base: PlayCase, edits: Vec<(u8, u16, u8)> },
    Wrong { base: Synth, kind: u8, a: u8, b: u8 },
    Reachable(PlayCase),
    Builder { wk: u8, bk: u8, ops: Vec<BOp> },
}

const TOKENS: &[&[u8]] = &[
    b"p", b"n", b"b", b"r", b"q", b"k", b"P", b"N", b"B", b"R", b"Q", b"K", b"/", b"1", b"2", b"3", b"4", b"5", b"6", b"7", b"8", b" ", b"w", b"b", b"-", b"K", b"Q", b"k", b"q", b"KQkq", b"a", b"c", b"e", b"h",
    b"3", b"6", b"0", b"9", b"10", b"99", b"100", b"9999", b"65535", b"8/", b"8/8/8/8/8/8/8/8", b" w ", b" b ", b" - ", b" 0 1", b"e3", b"e6", b"4k3", b"4K3", b"R3K2R", b"r3k2r", b"pppppppp", b"PPPPPPPP",
];

/// Read an accepted board back into the reference representation: 64 squares, side to move,
/// and rights / marker from the text form (the only public source for them).
pub fn read_back(b: &Board) -> Result<Pos, String> {
    let mut p = Pos::empty();
    p.sq = squares(b);
    p.turn = color_from_bb(b.turn());
    let text = b.to_string();
    let parts: Vec<&str> = text.split(' ').collect();
    if parts.len() != 6 {
        return Err(format!("accepted board prints a text without six fields: `{text}`"));
    }
    if parts[2] != "-" {
        for ch in parts[2].chars() {
            match "KQkq".find(ch) {
                Some(i) => p.castle[i] = true,
                None => return Err(format!("odd castling field in `{text}`")),
            }
        }
    }
    if parts[3] != "-" {
        let f = parts[3].as_bytes()[0];
        if !(b'a'..=b'h').contains(&f) {
            return Err(format!("odd en-passant field in `{text}`"));
        }
        p.ep = Some(f - b'a');
    }
    p.half = b.half_move_clock() as u32;
    p.full = b.full_move_clock() as u32;
    // (the `{:?}` rendering is not a specified format, so it is deliberately not parsed here:
    // a maintainer may change it freely)
    Ok(p)
}

pub fn check_accepted(b: &Board, origin: &str) -> Result<(), String> {
    let p = read_back(b).map_err(|e| format!("C06 {origin}: {e}"))?;
    let why = p.unplayable_reasons();
    if !why.is_empty() {
        return Err(format!("C06 {origin}: accepted board `{b}` is not playable: {}", why.join("; ")));
    }
    Ok(())
}

/// returns (accepted, syntactically complete)
pub fn check_bytes(bytes: &[u8]) -> Result<(bool, bool), String> {
    let shown = || String::from_utf8_lossy(bytes).into_owned();
    let r = guarded(|| parse_fen(bytes)).map_err(|p| format!("C06 parse_fen panics on {:?} (bytes {:?}): {p}", shown(), bytes))?;
    if let Ok(s) = std::str::from_utf8(bytes) {
        let r2 = guarded(|| s.parse::<Board>()).map_err(|p| format!("C06 str::parse panics on {s:?}: {p}"))?;
        match (&r, &r2) {
            (Ok(a), Ok(b)) if a == b && a.to_string() == b.to_string() => {}
            (Err(a), Err(b)) if a == b => {}
            _ => return Err(format!("C06 parse_fen and str::parse disagree on {s:?}")),
        }
    }
    match r {
        Ok(b) => {
            check_accepted(&b, &format!("parser on {:?}", shown()))?;
            Ok((true, true))
        }
        Err(ParseFenError::BoardValidation(_)) => Ok((false, true)),
        Err(e) => {
            // error values must be printable without panicking too
            guarded(|| format!("{e} {e:?}")).map_err(|p| format!("C06 formatting the error for {:?} panics: {p}", shown()))?;
            Ok((false, false))
        }
    }
}

fn apply_edits(mut s: Vec<u8>, edits: &[(u8, u16, u8)]) -> Vec<u8> {
    for &(kind, pos, byte) in edits {
        let n = s.len();
        let at = |len: usize| if len == 0 { 0 } else { (pos as usize * len) >> 16 };
        match kind % 8 {
            0 => s.insert(at(n + 1), byte),
            1 => {
                if n > 0 {
                    s.remove(at(n));
                }
            }
            2 => {
                if n > 0 {
                    let i = at(n);
                    s[i] = byte;
                }
            }
            3 => {
                if n > 0 {
                    let i = at(n);
                    let c = s[i];
                    s.insert(i, c);
                }
            }
            4 => {
                if n > 1 {
                    let i = at(n - 1);
                    s.swap(i, i + 1);
                }
            }
            5 => s.truncate(at(n + 1)),
            6 => s.insert(at(n + 1), b' '),
            _ => s.insert(at(n + 1), b'/'),
        }
    }
    s
}

fn edit_byte() -> impl Strategy<Value = u8> {
    prop_oneof![4 => prop::sample::select(b"pnbrqkPNBRQK/12345678 wb-abcdefgh09".to_vec()), 1 => any::<u8>()]
}

fn wrong_fen(base: &Synth, kind: u8, a: u8, b: u8) -> Option<Vec<u8>> {
    let mut p = build_synth(base)?;
    let us = p.turn;
    let mut text_override: Option<String> = None;
    match kind % 10 {
        0 => {
            // no king for one side
            let k = p.king(if a & 1 == 0 { C::White } else { C::Black })?;
            p.sq[k as usize] = None;
        }
        1 => {
            // a second / third king
            let c = if a & 1 == 0 { C::White } else { C::Black };
            for i in 0..(1 + b % 2) {
                let s = (0..64u8).map(|d| ((a as u32 + d as u32 + i as u32 * 7) % 64) as u8).find(|&s| p.sq[s as usize].is_none())?;
                p.sq[s as usize] = Some((c, P::King));
            }
        }
        2 => {
            // 17+ men on one side
            let c = if a & 1 == 0 { C::White } else { C::Black };
            let mut s = b % 64;
            let mut guard = 0;
            while p.count(c) < 17 && guard < 200 {
                if p.sq[s as usize].is_none() {
                    p.sq[s as usize] = Some((c, P::Knight));
                }
                s = (s + 5) % 64;
                guard += 1;
            }
        }
        3 => {
            // a right without its rook
            let i = (a % 4) as usize;
            p.castle[i] = true;
            let rook = [7u8, 0, 63, 56][i];
            p.sq[rook as usize] = if b & 1 == 0 { None } else { Some((if i < 2 { C::Black } else { C::White }, P::Rook)) };
            let k = [4u8, 4, 60, 60][i];
            if p.king(if i < 2 { C::White } else { C::Black }) != Some(k) {
                return None;
            }
        }
        4 => {
            // a right without its king on the home square (a rook is there)
            let i = (a % 4) as usize;
            let c = if i < 2 { C::White } else { C::Black };
            let home = if i < 2 { 4u8 } else { 60 };
            if p.king(c) == Some(home) {
                // move the king away
                let s = (0..64u8).map(|d| ((home as u32 + 9 + d as u32) % 64) as u8).find(|&s| p.sq[s as usize].is_none())?;
                p.sq[home as usize] = None;
                p.sq[s as usize] = Some((c, P::King));
            }
            p.castle[i] = true;
            let rook = [7u8, 0, 63, 56][i];
            p.sq[rook as usize] = Some((c, P::Rook));
        }
        5 => {
            // marker on an occupied target square / without the pawn / with an own pawn
            let f = a % 8;
            p.ep = Some(f);
            let (target_r, pawn_r) = if us == C::White { (5u8, 4u8) } else { (2, 3) };
            match b % 4 {
                0 => {
                    p.sq[(pawn_r * 8 + f) as usize] = Some((us.flip(), P::Pawn));
                    p.sq[(target_r * 8 + f) as usize] = Some((us.flip(), P::Knight));
                }
                1 => {
                    p.sq[(pawn_r * 8 + f) as usize] = None;
                    p.sq[(target_r * 8 + f) as usize] = None;
                }
                2 => {
                    p.sq[(pawn_r * 8 + f) as usize] = Some((us, P::Pawn));
                    p.sq[(target_r * 8 + f) as usize] = None;
                }
                _ => {
                    p.sq[(pawn_r * 8 + f) as usize] = Some((us.flip(), P::Bishop));
                    p.sq[(target_r * 8 + f) as usize] = None;
                }
            }
        }
        6 => {
            // marker rank belonging to the other side to move
            let f = a % 8;
            let (target_r, pawn_r) = if us == C::White { (5u8, 4u8) } else { (2, 3) };
            p.sq[(pawn_r * 8 + f) as usize] = Some((us.flip(), P::Pawn));
            p.sq[(target_r * 8 + f) as usize] = None;
            p.ep = Some(f);
            let good = p.fen();
            let wrong_rank = if us == C::White { '3' } else { '6' };
            let parts: Vec<&str> = good.split(' ').collect();
            text_override = Some(format!("{} {} {} {}{} {} {}", parts[0], parts[1], parts[2], (b'a' + f) as char, wrong_rank, parts[4], parts[5]));
        }
        7 => {
            // the mover could capture the king: give the move to the side that is giving check
            let them = us.flip();
            // place a piece of the mover attacking the enemy king
            let k = p.king(them)?;
            let cands: Vec<u8> = (0..64u8)
                .filter(|&s| p.sq[s as usize].is_none())
                .filter(|&s| {
                    let mut q = p.clone();
                    q.sq[s as usize] = Some((us, [P::Queen, P::Rook, P::Bishop, P::Knight][(b % 4) as usize]));
                    q.attackers(k, us).contains(&s)
                })
                .collect();
            if cands.is_empty() {
                return None;
            }
            let s = cands[(a as usize * cands.len()) >> 8];
            p.sq[s as usize] = Some((us, [P::Queen, P::Rook, P::Bishop, P::Knight][(b % 4) as usize]));
        }
        8 => {
            // adjacent kings
            let wk = p.king(C::White)?;
            let bk = p.king(C::Black)?;
            p.sq[bk as usize] = None;
            let (f, r) = (refchess::fl(wk), refchess::rk(wk));
            let (df, dr) = refchess::KG[(a % 8) as usize];
            let s = refchess::mk(f + df, r + dr)?;
            p.sq[s as usize] = Some((C::Black, P::King));
            p.castle = [false; 4];
        }
        _ => {
            // clocks out of the parser's range / odd numbers
            let good = p.fen();
            let parts: Vec<&str> = good.split(' ').collect();
            let clocks = ["10000 1", "0 65536", "99999 99999", "01 002", "0 -1", "+1 1", "1 1 1", "1", ""][(a % 9) as usize];
            text_override = Some(format!("{} {} {} {} {}", parts[0], parts[1], parts[2], parts[3], clocks));
        }
    }
    Some(text_override.unwrap_or_else(|| p.fen()).into_bytes())
}

fn bb_piece(code: u8) -> (bb::Color, bb::Piece) {
    let c = if code & 1 == 0 { bb::Color::White } else { bb::Color::Black };
    let p = match (code >> 1) % 12 {
        0..=4 => bb::Piece::Pawn,
        5 | 6 => bb::Piece::Knight,
        7 => bb::Piece::Bishop,
        8 | 9 => bb::Piece::Rook,
        10 => bb::Piece::Queen,
        _ => bb::Piece::King,
    };
    (c, p)
}

fn run_builder(wk: u8, bk: u8, ops: &[BOp], st: &mut Stats) -> Result<(), String> {
    let res = guarded(|| {
        let mut b = Board::builder();
        let _ = b.place(sq(wk % 64), bb::Color::White, bb::Piece::King);
        let _ = b.place(sq(bk % 64), bb::Color::Black, bb::Piece::King);
        for op in ops {
            match op {
                BOp::Place(code, s) => {
                    let (c, p) = bb_piece(*code);
                    let _ = b.place(sq(*s % 64), c, p);
                }
                BOp::Remove(s) => {
                    b.remove(sq(*s % 64));
                }
                BOp::Turn(black) => {
                    b.turn(if *black { bb::Color::Black } else { bb::Color::White });
                }
                BOp::Ep(f) => {
                    b.enpassant(f.map(|f| bb::File::from_u8(f % 8).unwrap()));
                }
                BOp::Half(x) => {
                    b.half_move_clock(*x);
                }
                BOp::Full(x) => {
                    b.full_move_clock(*x);
                }
            }
        }
        b.build()
    })
    .map_err(|p| format!("C06 builder script panics: {p}"))?;
    st.eval(1);
    match res {
        Ok(board) => {
            check_accepted(&board, "builder script")?;
            st.class("builder: accepted");
            st.nontrivial(digest(&board.to_string()));
        }
        Err(_) => st.class("builder: rejected"),
    }
    Ok(())
}

fn run_case(c: &FenCase, st: &mut Stats) -> Result<(), String> {
    let (name, bytes): (&str, Vec<u8>) = match c {
        FenCase::Raw(b) => ("raw bytes", b.clone()),
        FenCase::Soup(t) => ("token soup", t.iter().flat_map(|i| TOKENS[*i as usize % TOKENS.len()].iter().copied()).collect()),
        FenCase::Fields { ranks, turn, rights, ep, half, full, sep } => {
            const RT: &[&[u8]] = &[b"1", b"2", b"3", b"4", b"5", b"6", b"7", b"8", b"p", b"P", b"n", b"N", b"b", b"B", b"r", b"R", b"q", b"Q", b"k", b"K", b"pp", b"PP", b"1p", b"P1"];
            let pick = |v: &[&'static [u8]], i: u8| -> &'static [u8] { v[i as usize % v.len()] };
            let mut out: Vec<u8> = vec![];
            for (i, r) in ranks.iter().enumerate() {
                if i > 0 {
                    out.push(b'/');
                }
                // steer each rank toward width 8: stop adding tokens once eight files are filled
                let mut w = 0usize;
                for t in r {
                    let tok = RT[*t as usize % RT.len()];
                    let tw: usize = tok.iter().map(|c| if c.is_ascii_digit() { (c - b'0') as usize } else { 1 }).sum();
                    if w + tw > 8 && sep & 1 == 0 {
                        continue;
                    }
                    out.extend_from_slice(tok);
                    w += tw;
                }
                if w < 8 && sep & 2 == 0 {
                    out.push(b'0' + (8 - w) as u8);
                }
            }
            let sp: &[u8] = if sep & 4 == 0 { b" " } else { b"  " };
            out.extend_from_slice(sp);
            out.extend_from_slice(pick(&[b"w", b"b", b"W", b"-", b""], *turn));
            out.extend_from_slice(sp);
            out.extend_from_slice(pick(&[b"-", b"KQkq", b"K", b"Q", b"k", b"q", b"Kk", b"Qq", b"KQ", b"kq", b"QK", b"qk", b"KQkqK", b"", b"Kq", b"Qk"], *rights));
            out.extend_from_slice(sp);
            out.extend_from_slice(pick(&[b"-", b"a3", b"e3", b"h3", b"a6", b"d6", b"h6", b"e4", b"e5", b"i3", b"a", b"3", b"", b"b3", b"c6", b"g6", b"f3"], *ep));
            out.extend_from_slice(sp);
            out.extend_from_slice(pick(&[b"0", b"1", b"50", b"99", b"100", b"9999", b"10000", b"", b"-1", b"007"], *half));
            out.extend_from_slice(sp);
            out.extend_from_slice(pick(&[b"0", b"1", b"60", b"9999", b"65535", b"65536", b"", b"1 ", b"1x"], *full));
            ("field-structured soup", out)
        }
        FenCase::Edited { base, edits } => {
            let Some(root) = build_root(&base.root) else {
                st.rejected += 1;
                return Ok(());
            };
            let mut p = apply_clocks(root, base);
            for &(bias, idx) in &base.choices {
                let l = p.legal();
                if l.is_empty() {
                    break;
                }
                p = p.apply(pick(&p, &l, bias, idx));
            }
            ("canonical FEN with edits", apply_edits(p.fen().into_bytes(), edits))
        }
        FenCase::Wrong { base, kind, a, b } => match wrong_fen(base, *kind, *a, *b) {
            Some(v) => ("well-formed but semantically wrong", v),
            None => {
                st.rejected += 1;
                return Ok(());
            }
        },
        FenCase::Reachable(pc) => {
            // every canonical FEN of a reachable position is accepted and equals the lockstep board
            let Some(root) = build_root(&pc.root) else {
                st.rejected += 1;
                return Ok(());
            };
            let mut p = apply_clocks(root, pc);
            let mut b = to_board(&p)?;
            for &(bias, idx) in &pc.choices {
                let l = p.legal();
                if l.is_empty() {
                    break;
                }
                let m = pick(&p, &l, bias, idx);
                p = p.apply(m);
                b = b.move_new(to_cm(m)).ok_or_else(|| format!("move_new refuses legal {m}"))?;
                let parsed = parse_fen(p.fen().as_bytes()).map_err(|e| format!("C06 canonical FEN of a reachable position rejected: `{}`: {e:?}", p.fen()))?;
                if parsed != b || parsed.to_string() != b.to_string() {
                    return Err(format!("C06 parse of `{}` differs from the board reached by play `{b}`", p.fen()));
                }
                check_accepted(&parsed, "parser on a reachable position")?;
                st.eval(1);
                st.nontrivial(digest(&p.fen()));
            }
            st.class("reachable: accepted");
            return Ok(());
        }
        FenCase::Builder { wk, bk, ops } => return run_builder(*wk, *bk, ops, st),
    };
    let (accepted, complete) = check_bytes(&bytes)?;
    st.eval(1);
    st.class(&format!("{name}: {}", if accepted { "accepted" } else if complete { "rejected by validation" } else { "rejected by syntax" }));
    if accepted || complete {
        if st.nontrivial(digest(&bytes)) && st.want_sample() {
            st.sample(json!({"strategy": name, "input": String::from_utf8_lossy(&bytes), "accepted": accepted}));
        }
    }
    Ok(())
}

fn strategy() -> impl Strategy<Value = FenCase> {
    let bop = prop_oneof![
        8 => (any::<u8>(), any::<u8>()).prop_map(|(c, s)| BOp::Place(c, s)),
        2 => any::<u8>().prop_map(BOp::Remove),
        1 => any::<bool>().prop_map(BOp::Turn),
        1 => prop::option::of(0u8..8).prop_map(BOp::Ep),
        1 => any::<u16>().prop_map(BOp::Half),
        1 => any::<u16>().prop_map(BOp::Full),
    ];
    prop_oneof![
        2 => prop::collection::vec(any::<u8>(), 0..=120).prop_map(FenCase::Raw),
        1 => prop::collection::vec(any::<u8>(), 0..40).prop_map(FenCase::Soup),
        4 => (prop_oneof![8 => Just(8usize), 1 => 0usize..10].prop_flat_map(|n| prop::collection::vec(prop::collection::vec(any::<u8>(), 0..6), n..=n)), any::<u8>(), any::<u8>(), any::<u8>(), any::<u8>(), any::<u8>(), prop_oneof![6 => Just(0u8), 2 => any::<u8>()])
            .prop_map(|(ranks, turn, rights, ep, half, full, sep)| FenCase::Fields { ranks, turn, rights, ep, half, full, sep }),
        6 => (play_strategy(40, 28), prop::collection::vec((any::<u8>(), any::<u16>(), edit_byte()), 1..=4)).prop_map(|(base, edits)| FenCase::Edited { base, edits }),
        4 => (synth_strategy(28), any::<u8>(), any::<u8>(), any::<u8>()).prop_map(|(base, kind, a, b)| FenCase::Wrong { base, kind, a, b }),
        1 => play_strategy(60, 28).prop_map(FenCase::Reachable),
        3 => (any::<u8>(), any::<u8>(), prop::collection::vec(bop, 0..24)).prop_map(|(wk, bk, ops)| FenCase::Builder { wk, bk, ops }),
    ]
}

fn directed(st: &mut Stats) -> Result<(), Fail> {
    // fixed regression inputs: historic findings and format corner cases
    let inputs: &[&[u8]] = &[
        b"4k3/8/8/8/8/8/8/4K3 w K - 0 1",
        b"4k3/8/8/8/8/8/8/4K3 w Q - 0 1",
        b"4k3/8/8/8/8/8/8/4K3 w k - 0 1",
        b"4k3/8/8/8/8/8/8/4K3 w q - 0 1",
        b"k7/8/8/8/8/8/8/R3K3 w - - 0 1",
        b"8/8/8/8/8/8/8/Kk6 w - - 0 1",
        b"",
        b" ",
        b"8/8/8/8/8/8/8/8 w - - 0 1",
        b"rnbqkbnr/pppppppp/8/8/8/8/PPPPPPPP/RNBQKBNR w KQkq - 0 0",
        b"rnbqkbnr/pppppppp/8/8/8/8/PPPPPPPP/RNBQKBNR w KQkq - 0 0 ",
        b"rnbqkbnr/pppppppp/8/8/8/8/PPPPPPPP/RNBQKBNR  w  KQkq  -  0  0",
        b"rnbqkbnr/pppppppp/8/8/8/8/PPPPPPPP/RNBQKBNR w KQkq - 00000 0",
        b"rnbqkbnr/pppppppp/9/8/8/8/PPPPPPPP/RNBQKBNR w KQkq - 0 0",
        b"rnbqkbnr/pppppppp/44/8/8/8/PPPPPPPP/RNBQKBNR w KQkq - 0 0",
        b"rnbqkbnr/pppppppp/8/8/8/8/PPPPPPPP/RNBQKBNRR w KQkq - 0 0",
        b"rnbqkbnr/pppppppp/8/8/8/8/PPPPPPPP/RNBQKBN w KQkq - 0 0",
        b"rnbqkbnr/pppp1ppp/8/4p3/4P3/8/PPPP1PPP/RNBQKBNR w KQkq e6 0 2",
        b"rnbqkbnr/pppp1ppp/8/4p3/4P3/8/PPPP1PPP/RNBQKBNR w KQkq e3 0 2",
        b"rnbqkbnr/pppp1ppp/8/4p3/4P3/8/PPPP1PPP/RNBQKBNR b KQkq e6 0 2",
        b"PPPPPPPP/PPPPPPPP/k7/8/8/7K/8/8 w - - 0 1",
        b"PPPPPPPP/PPPPPPPP/k7/8/8/7K/8/P7 w - - 0 1",
    ];
    for inp in inputs {
        let (acc, complete) = check_bytes(inp).map_err(|d| Fail { case: json!({"directed_bytes": inp.to_vec()}), detail: d })?;
        st.eval(1);
        if acc || complete {
            st.nontrivial(digest(&inp.to_vec()));
        }
    }
    // the named roots are reachable positions and must be accepted; the unreachable suite
    // positions are playable, but nothing says they must be accepted: only totality and the
    // playability of whatever is accepted are checked on them
    for (i, r) in ROOTS.iter().chain(UNREACHABLE_SUITE.iter()).enumerate() {
        let (acc, _) = check_bytes(r.as_bytes()).map_err(|d| Fail { case: json!({"directed_bytes": r.as_bytes().to_vec()}), detail: d })?;
        if !acc && i < ROOTS.len() {
            return Err(Fail { case: json!({"directed_bytes": r.as_bytes().to_vec()}), detail: format!("C06 canonical FEN of a reachable position `{r}` rejected") });
        }
        st.eval(1);
    }
    // reachable positions at the material limits (nine queens, ten knights, ...) must be accepted
    for p in material_extremes() {
        let r = p.fen();
        let (acc, _) = check_bytes(r.as_bytes()).map_err(|d| Fail { case: json!({"directed_bytes": r.as_bytes().to_vec()}), detail: d })?;
        if !acc {
            return Err(Fail { case: json!({"directed_bytes": r.as_bytes().to_vec()}), detail: format!("C06 canonical FEN of a reachable position `{r}` rejected") });
        }
        st.eval(1);
        st.class("directed: reachable material extremes accepted");
    }
    Ok(())
}

/// The position argument of `chess-cli on-board` is the parser's untrusted input in the field:
/// the real binary is started on byte strings (canonical FENs, the same with multi-byte
/// characters inserted at every early byte offset, non-UTF-8 bytes, keyword-like prefixes,
/// token soup). A panic of the process is a violation; a usage error, a clean exit or a
/// started search is not.
fn cli_args(seed: u64, n_generated: usize) -> Vec<Vec<u8>> {
    let mut out: Vec<Vec<u8>> = vec![];
    let bases: Vec<String> = ROOTS.iter().take(10).map(|s| s.to_string()).chain(["8/8/8/8/8/8/8/8 w - - 0 1".to_string(), "k7/8/8/8/8/8/8/K7 w - - 0 1".to_string()]).collect();
    for b in &bases {
        out.push(b.as_bytes().to_vec());
    }
    let inserts: [&str; 5] = ["\u{e9}", "\u{2657}", "\u{1f600}", "\u{0301}", "\u{a0}"];
    for (bi, b) in bases.iter().enumerate() {
        for off in (0..=12usize).chain([b.len() / 2, b.len() - 1, b.len()]) {
            if off > b.len() || !b.is_char_boundary(off) {
                continue;
            }
            let ins = inserts[(bi + off) % inserts.len()];
            let mut t = b.clone();
            t.insert_str(off, ins);
            out.push(t.into_bytes());
            // and replacing the byte at that offset
            if off < b.len() {
                let mut t = b.clone();
                t.replace_range(off..off + 1, inserts[(bi + off + 1) % inserts.len()]);
                out.push(t.into_bytes());
            }
        }
    }
    for p in ["fen ", "FEN ", "fen", "position fen ", "startpos", " ", "", "\t", "-", "--", "-h", "--help", "w", "/", "8", "8/8/8/8/8/8/8/8", "\u{feff}rnbqkbnr/pppppppp/8/8/8/8/PPPPPPPP/RNBQKBNR w KQkq - 0 1"] {
        out.push(p.as_bytes().to_vec());
        out.push(format!("{p}{}", bases[0]).into_bytes());
    }
    out.push(vec![0xff, 0xfe, b'/', b'8']);
    out.push(b"rnbqkbnr/pppppppp/8/8/8/8/PPPPPPPP/RNBQKBN\xf0 w KQkq - 0 1".to_vec());
    out.push(b"rnbq\x80bnr/pppppppp/8/8/8/8/PPPPPPPP/RNBQKBNR w KQkq - 0 1".to_vec());
    out.push("8/".repeat(4000).into_bytes());
    out.push("9".repeat(70000).into_bytes());
    // generated: token soup over the FEN alphabet with occasional multi-byte characters
    let mut g = Expand(seed ^ 0x0c06);
    let toks: [&str; 24] = ["r", "n", "b", "q", "k", "p", "R", "N", "B", "Q", "K", "P", "/", "8", "1", " ", "w", "b", "-", "KQkq", "e3", "0", "\u{e9}", "\u{1f600}"];
    for _ in 0..n_generated {
        let mut t = String::new();
        for _ in 0..1 + g.below(40) {
            t.push_str(toks[g.below(toks.len() as u64) as usize]);
        }
        out.push(t.into_bytes());
    }
    out.retain(|a| !a.contains(&0));
    out
}

/// The WASM entry point `new_game_from_fen` (compiled natively into the harness, see lib.rs)
/// takes the same untrusted text. Its error path builds a `JsError`, which exists on wasm
/// targets only, so only texts the parser accepts are sent through it: it must hand back a
/// game without panicking, `get` must answer for all 64 squares, and a search on the game
/// with a short limit must return.
pub fn wasm_one(fen: &str) -> Result<bool, String> {
    if fen.parse::<Board>().is_err() {
        return Ok(false);
    }
    let r = guarded(|| {
        let game = match crate::wasm_front::new_game_from_fen(fen) {
            Ok(g) => g,
            Err(_) => return Err(format!("C06 WASM entry point rejects `{fen}`, which the parser accepts")),
        };
        for f in 0..8u8 {
            for r in 0..8u8 {
                if game.get(f, r).is_err() {
                    return Err(format!("C06 WASM ChessGame::get({f},{r}) fails on `{fen}`"));
                }
            }
        }
        let mut e = crate::wasm_front::new_engine();
        match e.search(&game, Some("1ms".to_string())) {
            Ok(m) => {
                let _ = m.chess_move();
                Ok(())
            }
            Err(_) => Err(format!("C06 WASM ChessEngine::search fails on `{fen}`")),
        }
    });
    match r {
        Ok(Ok(())) => Ok(true),
        Ok(Err(d)) => Err(d),
        Err(p) => Err(format!("C06 WASM entry point new_game_from_fen / search panics on the accepted text `{fen}`: {p}")),
    }
}

fn wasm_stage(ctx: &WorkerCtx, st: &mut Stats) -> Result<(), Fail> {
    let mut texts: Vec<String> = ROOTS.iter().map(|s| s.to_string()).collect();
    texts.push(Board::standard().to_string());
    texts.extend(material_extremes().iter().map(|p| p.fen()));
    // clocks at their extremes on a few placements
    for base in ["4k3/8/8/8/8/8/8/4K2R w K -", "r3k2r/8/8/8/8/8/8/R3K2R b KQkq -", "8/8/8/3pP3/8/8/8/K6k w - d6"] {
        for (h, f) in [(0u32, 0u32), (0, 1), (99, 0), (100, 9999), (9999, 9999), (0, 9999)] {
            let h = if base.ends_with("d6") { 0 } else { h };
            texts.push(format!("{base} {h} {f}"));
        }
    }
    let mut g = Expand(ctx.wseed(606));
    for _ in 0..ctx.tier.pick(60, 600) {
        let i = g.below(ROOTS.len() as u64) as usize;
        if let Some(mut p) = refchess::Pos::from_fen(ROOTS[i]) {
            for _ in 0..g.below(12) {
                let l = p.legal();
                if l.is_empty() {
                    break;
                }
                p = p.apply(l[g.below(l.len() as u64) as usize]);
            }
            if g.below(3) == 0 {
                p.full = [0u32, 1, 9999][g.below(3) as usize];
            }
            texts.push(p.fen());
        }
    }
    for t in texts {
        let case = json!({"wasm_fen": t});
        ctx.about_to_run(&case);
        match wasm_one(&t) {
            Ok(true) => {
                st.eval(1);
                st.class("WASM entry point: accepted text gives a game, 64 square reads and a 1 ms search");
            }
            Ok(false) => st.class("WASM entry point: text not accepted by the parser (error path not runnable natively, skipped)"),
            Err(d) => return Err(Fail { case, detail: d }),
        }
    }
    Ok(())
}

fn cli_stage(ctx: &WorkerCtx, st: &mut Stats) -> Result<(), Fail> {
    let bin = std::env::var("VERIF_CHESS_CLI").unwrap_or_else(|_| "/verif/target/release/chess-cli".to_string());
    if !std::path::Path::new(&bin).exists() {
        st.class("CLI stage skipped: chess-cli binary not built");
        return Ok(());
    }
    let args = cli_args(ctx.seed, ctx.tier.pick(150, 1500));
    let results: Vec<(usize, Result<&'static str, String>)> = std::thread::scope(|sc| {
        let mut out = vec![];
        for (ci, chunk) in args.chunks(12).enumerate() {
            let hs: Vec<_> = chunk
                .iter()
                .enumerate()
                .map(|(j, a)| {
                    let bin = bin.clone();
                    (ci * 12 + j, sc.spawn(move || crate::enums::cli_scenario_bytes(&bin, Some(a), "C06", "the position argument is untrusted input: the parser and the front end around it must answer with a board or an error")))
                })
                .collect();
            for (i, h) in hs {
                out.push((i, h.join().unwrap_or_else(|_| Ok("CLI scenario: harness thread failed (no verdict)"))));
            }
        }
        out
    });
    for (i, r) in results {
        match r {
            Ok(c) => {
                st.class(c);
                st.eval(1);
            }
            Err(d) => return Err(Fail { case: json!({"cli_arg": args[i]}), detail: d }),
        }
    }
    Ok(())
}

fn worker(ctx: &WorkerCtx) -> Result<(), Fail> {
    if ctx.idx == 0 {
        let mut st = ctx.stats.borrow_mut();
        directed(&mut st)?;
    }
    if ctx.idx == 1 % ctx.n {
        let mut st = ctx.stats.borrow_mut();
        cli_stage(ctx, &mut st)?;
    }
    if ctx.idx == 2 % ctx.n {
        let mut st = ctx.stats.borrow_mut();
        wasm_stage(ctx, &mut st)?;
    }
    run_proptest(ctx, 6, ctx.share(ctx.tier.pick(1_500_000, 30_000_000)), strategy(), |c| serde_json::to_value(c).unwrap(), run_case)
}

fn replay(v: &Value) -> Result<(), String> {
    if let Some(t) = v.get("wasm_fen").and_then(|x| x.as_str()) {
        return wasm_one(t).map(|_| ());
    }
    if let Some(b) = v.get("cli_arg") {
        let bytes: Vec<u8> = b.as_array().ok_or("bytes")?.iter().map(|x| x.as_u64().unwrap_or(0) as u8).collect();
        let bin = std::env::var("VERIF_CHESS_CLI").unwrap_or_else(|_| "/verif/target/release/chess-cli".to_string());
        if !std::path::Path::new(&bin).exists() {
            return Err("chess-cli binary not built: cannot replay a CLI case".into());
        }
        return crate::enums::cli_scenario_bytes(&bin, Some(&bytes), "C06", "the position argument is untrusted input").map(|_| ());
    }
    if let Some(b) = v.get("directed_bytes") {
        let bytes: Vec<u8> = b.as_array().ok_or("bytes")?.iter().map(|x| x.as_u64().unwrap_or(0) as u8).collect();
        return check_bytes(&bytes).map(|_| ());
    }
    if let Some(b) = v.get("fuzz_bytes_hex") {
        let h = b.as_str().ok_or("hex")?;
        let bytes: Vec<u8> = (0..h.len() / 2).map(|i| u8::from_str_radix(&h[2 * i..2 * i + 2], 16).unwrap_or(0)).collect();
        return check_bytes(&bytes).map(|_| ());
    }
    let c: FenCase = serde_json::from_value(v.clone()).map_err(|e| e.to_string())?;
    run_case(&c, &mut Stats::new())
}

pub const C06: CheckDef = CheckDef {
    id: "C06",
    worker,
    replay,
    rule: "six strategies: raw bytes (len 0..=120); token soup over FEN tokens; canonical FENs of playout positions with 1-4 edits (insert/delete/replace/duplicate/transpose/truncate/extra space/slash); well-formed but semantically wrong FENs by construction (0/2/3 kings, 17+ men, each right without rook or king, marker on occupied square / without pawn / own pawn / wrong piece / wrong rank, mover able to capture the king, adjacent kings, out-of-range clocks); canonical FENs of reachable positions (must be accepted and equal the lockstep board); builder scripts (place/remove/turn/enpassant/clocks then build). Oracle: no panic, parse_fen and str::parse agree, every accepted board read back (64 squares, turn, rights and marker via the text form) satisfies the playability predicate clause by clause. Non-trivial = input accepted or rejected only by validation (syntactically complete); distinct by bytes.",
    assumptions: &["playability predicate exactly as listed in the property (one king per side, <= 16 men per side, side not to move not attacked, rights need king+rook at home, marker needs an empty target directly behind an enemy pawn on its double-step rank)", "lenient syntax (repeated spaces) is not a violation: only totality and the predicate on accepted boards are asserted"],
    exhaustive: |_| false,
    uses_reference: true,
    workers: |_| 0,
    known_signature: no_signature,
    profile: "release",
};
