//! Lockstep walks of implementation and reference model: the deciding step of C01, C02,
//! C03 and C05 (and the position source for several other checks).

use crate::conv::*;
use crate::fw::*;
use crate::gen::*;
use chess_bitboard as bb;
use chess_movegen::{Board, ChessMove, GameState};
use refchess::{fl, mk, rk, Mv, Pos, Status, C, P, PROMOS};
use serde_json::{json, Value};

#[derive(Clone, Copy, PartialEq, Eq, Debug)]
pub enum Mode {
    C01,
    C02,
    C03,
    C05,
}

pub fn case_json(c: &PlayCase) -> Value {
    let mut v = serde_json::to_value(c).unwrap();
    // human-readable companions (ignored on replay)
    if let Some(root) = build_root(&c.root) {
        let mut p = apply_clocks(root, c);
        v["root_fen"] = json!(p.fen());
        let mut moves = vec![];
        for &(bias, idx) in &c.choices {
            let l = p.legal();
            if l.is_empty() {
                break;
            }
            let m = pick(&p, &l, bias, idx);
            moves.push(m.to_string());
            p = p.apply(m);
        }
        v["moves"] = json!(moves.join(" "));
        v["final_fen"] = json!(p.fen());
    }
    v
}

pub fn case_from_json(v: &Value) -> Result<PlayCase, String> {
    let mut v = v.clone();
    if let Some(o) = v.as_object_mut() {
        o.remove("root_fen");
        o.remove("moves");
        o.remove("final_fen");
    }
    serde_json::from_value(v).map_err(|e| format!("bad case: {e}"))
}

pub fn apply_clocks(mut p: Pos, c: &PlayCase) -> Pos {
    if c.half != 0 || c.full != 0 {
        p.half = c.half as u32;
        p.full = c.full as u32;
    }
    if p.ep.is_some() {
        // a double step has just been played
        p.half = 0;
    }
    p
}

pub fn map_status(s: Status) -> GameState {
    match s {
        Status::Mate => GameState::CheckMate,
        Status::Draw => GameState::StaleMate,
        Status::Check => GameState::Check,
        Status::Running => GameState::Running,
    }
}

fn diff_moves(gen: &[Mv], legal: &[Mv]) -> String {
    let extra: Vec<Mv> = gen.iter().copied().filter(|m| !legal.contains(m)).collect();
    let missing: Vec<Mv> = legal.iter().copied().filter(|m| !gen.contains(m)).collect();
    let mut dup = vec![];
    for w in gen.windows(2) {
        if w[0] == w[1] {
            dup.push(w[0]);
        }
    }
    format!("generated-but-illegal=[{}] legal-but-missing=[{}] duplicates=[{}]", fmt_moves(&extra), fmt_moves(&missing), fmt_moves(&dup))
}

/// near misses of legal moves and generated triples that the reference says are illegal
pub fn illegal_triples(pos: &Pos, legal: &[Mv], aux: &mut Expand, random: usize) -> Vec<Mv> {
    let mut out = vec![];
    let mut add = |m: Mv| {
        if !legal.contains(&m) {
            out.push(m);
        }
    };
    for &m in legal {
        match m.promo {
            Some(_) => add(Mv { promo: None, ..m }),
            None => {
                let k = (aux.below(4)) as usize;
                add(Mv { promo: Some(PROMOS[k]), ..m });
            }
        }
    }
    let us = pos.turn;
    // castling targets (with or without the right), the en-passant square region
    let home = if us == C::White { 0 } else { 7 };
    for to in [2i8, 6, 1, 5, 3] {
        add(Mv { from: mk(4, home).unwrap(), to: mk(to, home).unwrap(), promo: None });
    }
    let (epr, pr) = if us == C::White { (5, 4) } else { (2, 3) };
    for f in 0..8i8 {
        for df in [-1i8, 1] {
            if let (Some(from), Some(to)) = (mk(f + df, pr), mk(f, epr)) {
                if pos.sq[from as usize] == Some((us, P::Pawn)) {
                    add(Mv { from, to, promo: None });
                }
            }
        }
    }
    // pawn moves to the last rank with each piece / none, from every own pawn on the 7th
    let (r7, r8) = if us == C::White { (6, 7) } else { (1, 0) };
    for f in 0..8i8 {
        let from = mk(f, r7).unwrap();
        if pos.sq[from as usize] == Some((us, P::Pawn)) {
            for df in [-1i8, 0, 1] {
                if let Some(to) = mk(f + df, r8) {
                    add(Mv { from, to, promo: None });
                    for pp in PROMOS {
                        add(Mv { from, to, promo: Some(pp) });
                    }
                }
            }
        }
    }
    // generated triples, half of them starting on an own piece
    let own: Vec<u8> = (0..64u8).filter(|&s| matches!(pos.sq[s as usize], Some((c, _)) if c == us)).collect();
    for i in 0..random {
        let from = if i % 2 == 0 && !own.is_empty() { own[aux.below(own.len() as u64) as usize] } else { aux.below(64) as u8 };
        let to = aux.below(64) as u8;
        let promo = match aux.below(6) {
            0 => Some(P::Queen),
            1 => Some(P::Knight),
            2 => Some(PROMOS[aux.below(4) as usize]),
            _ => None,
        };
        add(Mv { from, to, promo });
    }
    out
}

fn c01_node(b: &Board, pos: &Pos, legal: &[Mv], aux: &mut Expand, st: &mut Stats, full_sweep: bool) -> Result<(), String> {
    let gen = gen_moves(b);
    if gen != legal {
        return Err(format!("C01 move sets differ at `{}`: {}", pos.fen(), diff_moves(&gen, legal)));
    }
    let it = b.legals();
    if it.len() != legal.len() || it.is_empty() != legal.is_empty() {
        return Err(format!("C01 legals().len()={} is_empty()={} but {} legal moves at `{}`", it.len(), it.is_empty(), legal.len(), pos.fen()));
    }
    for &m in legal {
        if !b.is_legal(to_cm(m)) {
            return Err(format!("C01 is_legal({m}) is false for a legal move at `{}`", pos.fen()));
        }
    }
    // the king-only generator, for the side to move, yields exactly the king's legal moves
    // (castling included)
    {
        let ksq = pos.king(pos.turn);
        let want: Vec<Mv> = legal.iter().copied().filter(|m| Some(m.from) == ksq).collect();
        let kit = b.king_legals(b.turn());
        let (kl, ke) = (kit.len(), kit.is_empty());
        let mut got: Vec<Mv> = kit.map(from_cm).collect();
        got.sort();
        let mut w = want.clone();
        w.sort();
        if got != w {
            return Err(format!("C01 king_legals(side to move) differs from the king's legal moves at `{}`: {}", pos.fen(), diff_moves(&got, &w)));
        }
        if kl != w.len() || ke != w.is_empty() {
            return Err(format!("C01 king_legals(side to move).len()={kl} is_empty()={ke} but the king has {} legal moves at `{}`", w.len(), pos.fen()));
        }
    }
    let bad = illegal_triples(pos, legal, aux, 32);
    for m in &bad {
        if b.is_legal(to_cm(*m)) {
            return Err(format!("C01 is_legal({m}) is true for an illegal move at `{}`", pos.fen()));
        }
    }
    st.class_n("is_legal queries (illegal triples)", bad.len() as u64);
    if full_sweep {
        for from in 0..64u8 {
            for to in 0..64u8 {
                for promo in [None, Some(P::Queen), Some(P::Rook), Some(P::Bishop), Some(P::Knight)] {
                    let m = Mv { from, to, promo };
                    if b.is_legal(to_cm(m)) != legal.contains(&m) {
                        return Err(format!("C01 is_legal({m}) = {} disagrees with the reference at `{}`", b.is_legal(to_cm(m)), pos.fen()));
                    }
                }
            }
        }
        st.class("positions with all 20480 triples queried");
    }
    if full_sweep && legal.len() <= 40 {
        // the counting helper walks the unchecked make-move path with one reused output board
        let want = pos.perft(2) as usize;
        let got = b.perft_test(2);
        if got != want {
            return Err(format!("C01 perft_test(2) = {got} at `{}`, the reference counts {want}", pos.fen()));
        }
        st.class("perft_test(2) compared with the reference");
    }
    let f = features(pos, legal);
    let nt = f.in_check || f.double_check || f.pinned || f.ep_capturer || f.castle_path_empty || f.promotion;
    for (on, name) in [
        (f.in_check, "in check"),
        (f.double_check, "double check"),
        (f.pinned, "piece pinned to mover's king"),
        (f.ep_capturer, "en-passant marker with capturer beside"),
        (f.ep_legal, "en-passant capture legal"),
        (f.ep_illegal, "en-passant capture pseudo-legal but illegal"),
        (f.castle_path_empty, "castling right with empty path"),
        (f.castle_legal, "castling legal"),
        (f.promotion, "promotion available"),
        (legal.is_empty(), "no legal move"),
    ] {
        if on {
            st.class(name);
        }
    }
    st.eval(1);
    if nt && st.nontrivial(digest(&pos.key())) && st.want_sample() {
        st.sample(json!({"fen": pos.fen(), "legal_moves": legal.len(), "features": format!("{f:?}")}));
    }
    Ok(())
}

fn partition_ok(b: &Board) -> Result<(), String> {
    let w = b[bb::Color::White];
    let k = b[bb::Color::Black];
    if (w & k).any() {
        return Err("colour sets overlap".into());
    }
    let mut union = bb::BitBoard::empty();
    for p in bb::Piece::all() {
        if (union & b[p]).any() {
            return Err("piece sets overlap".into());
        }
        union |= b[p];
    }
    if union != (w | k) {
        return Err("union of piece sets differs from union of colour sets".into());
    }
    Ok(())
}

pub fn same_board(a: &Board, b: &Board, what: &str) -> Result<(), String> {
    if a != b {
        return Err(format!("{what}: boards compare unequal: `{a}` vs `{b}`"));
    }
    if a.zobrist() != b.zobrist() || std_hash(a) != std_hash(b) {
        return Err(format!("{what}: equal boards hash differently: `{a}` {} vs `{b}` {}", a.zobrist(), b.zobrist()));
    }
    if a.to_string() != b.to_string() {
        return Err(format!("{what}: text differs: `{a}` vs `{b}`"));
    }
    if a.half_move_clock() != b.half_move_clock() || a.full_move_clock() != b.full_move_clock() {
        return Err(format!("{what}: clocks differ: `{a}` vs `{b}`"));
    }
    let (da, db) = (format!("{a:?}"), format!("{b:?}"));
    if da != db {
        return Err(format!("{what}: debug rendering differs:\n{da}\nvs\n{db}"));
    }
    Ok(())
}

fn sentinel() -> Board {
    "k7/8/8/8/8/8/8/7K w - - 7 9".parse().expect("sentinel")
}

fn c02_move(b: &Board, pos: &Pos, m: Mv, st: &mut Stats) -> Result<(), String> {
    let n = pos.apply(m);
    let cm = to_cm(m);
    let Some(b2) = b.move_new(cm) else {
        return Err(format!("C02 move_new refuses legal {m} at `{}`", pos.fen()));
    };
    let ctx = |s: String| format!("C02 after {m} at `{}`: {s}", pos.fen());
    if squares(&b2) != n.sq {
        return Err(ctx(format!("placement differs: implementation `{b2}` reference `{}`", n.fen())));
    }
    if color_from_bb(b2.turn()) != n.turn {
        return Err(ctx("side to move wrong".into()));
    }
    if b2.half_move_clock() as u32 != n.half || b2.full_move_clock() as u32 != n.full {
        return Err(ctx(format!("clocks {} {} but reference {} {}", b2.half_move_clock(), b2.full_move_clock(), n.half, n.full)));
    }
    if b2.to_string() != n.fen() {
        return Err(ctx(format!("text `{b2}` but reference `{}` (castling rights / en-passant marker)", n.fen())));
    }
    partition_ok(&b2).map_err(ctx)?;
    // the three checked operations agree
    let mut bm = *b;
    if !bm.move_mut(cm) {
        return Err(ctx("move_mut refuses a legal move".into()));
    }
    same_board(&b2, &bm, "move_new vs move_mut").map_err(ctx)?;
    let mut out = sentinel();
    if !b.move_into(cm, &mut out) {
        return Err(ctx("move_into refuses a legal move".into()));
    }
    same_board(&b2, &out, "move_new vs move_into").map_err(ctx)?;
    let k = pos.kind(m);
    let home_rook_capture = matches!(m.to, 0 | 7 | 56 | 63) && pos.sq[m.to as usize].map_or(false, |(_, p)| p == P::Rook);
    let leaves_home = matches!(m.from, 0 | 4 | 7 | 56 | 60 | 63) && pos.castle != n.castle;
    let nt = k.castle_k || k.castle_q || k.en_passant || k.promotion || k.double_step || home_rook_capture || leaves_home;
    for (on, name) in [
        (k.castle_k, "castle king side"),
        (k.castle_q, "castle queen side"),
        (k.en_passant, "en passant"),
        (k.promotion && k.capture, "promotion with capture"),
        (k.promotion && !k.capture, "promotion quiet"),
        (k.double_step, "double step"),
        (home_rook_capture, "capture on a rook home square"),
        (leaves_home, "king/rook leaves home losing a right"),
        (k.capture && !k.en_passant, "capture"),
    ] {
        if on {
            st.class(name);
        }
    }
    st.eval(1);
    if nt && st.nontrivial(digest(&(pos.key(), m))) && st.want_sample() {
        st.sample(json!({"fen": pos.fen(), "move": m.to_string(), "successor": n.fen()}));
    }
    Ok(())
}

fn c02_refusals(b: &Board, pos: &Pos, legal: &[Mv], aux: &mut Expand, st: &mut Stats) -> Result<(), String> {
    let before = (format!("{b:?}"), b.to_string());
    for m in illegal_triples(pos, legal, aux, 24) {
        let cm = to_cm(m);
        let ctx = |s: &str| format!("C02 illegal {m} at `{}`: {s}", pos.fen());
        if b.move_new(cm).is_some() {
            return Err(ctx("move_new accepted it"));
        }
        let mut bm = *b;
        if bm.move_mut(cm) {
            return Err(ctx("move_mut accepted it"));
        }
        if format!("{bm:?}") != before.0 || bm.to_string() != before.1 || bm != *b {
            return Err(ctx("move_mut refused but changed the board"));
        }
        let mut out = sentinel();
        let s0 = (format!("{out:?}"), out.to_string());
        if b.move_into(cm, &mut out) {
            return Err(ctx("move_into accepted it"));
        }
        if format!("{out:?}") != s0.0 || out.to_string() != s0.1 {
            return Err(ctx("move_into refused but wrote to the output"));
        }
        st.eval(1);
        let target = pos.sq[m.from as usize];
        let cls = match target {
            None => "refused: from an empty square",
            Some((c, _)) if c != pos.turn => "refused: enemy piece",
            _ => "refused: own piece, illegal destination/promotion",
        };
        st.class(cls);
        if target.map_or(false, |(c, _)| c == pos.turn) {
            st.nontrivial(digest(&(pos.key(), m, 1u8)));
        }
    }
    Ok(())
}

/// Build the same position through `Board::builder()` (only possible without rights:
/// `CastleRights` cannot be named outside the crate).
pub fn build_with_builder(pos: &Pos) -> Option<Result<Board, String>> {
    if pos.castle.iter().any(|x| *x) {
        return None;
    }
    let mut bld = Board::builder();
    // every other position is assembled the way a caller that recovers from mistakes would: a
    // placement on an occupied square (refused), and a piece put down on a free square and
    // taken off again
    let clumsy = digest(&pos.key()) & 1 == 1;
    let mut first: Option<u8> = None;
    for s in 0..64u8 {
        if let Some((c, p)) = pos.sq[s as usize] {
            if bld.place(sq(s), color_to_bb(c), piece_to_bb(p)).is_err() {
                return Some(Err("builder refuses to place on an empty square".into()));
            }
            if clumsy {
                if let Some(f) = first {
                    if bld.place(sq(f), color_to_bb(c), piece_to_bb(p)).is_ok() {
                        return Some(Err("builder accepts a placement on an occupied square".into()));
                    }
                } else {
                    first = Some(s);
                    if let Some(free) = (0..64u8).find(|q| pos.sq[*q as usize].is_none()) {
                        let _ = bld.place(sq(free), color_to_bb(c), bb::Piece::Knight);
                        bld.remove(sq(free));
                    }
                }
            }
        }
    }
    bld.turn(color_to_bb(pos.turn));
    bld.enpassant(pos.ep.map(|f| bb::File::from_u8(f).unwrap()));
    bld.half_move_clock(pos.half as u16);
    bld.full_move_clock(pos.full as u16);
    Some(bld.build().map_err(|e| format!("builder rejects a valid position `{}`: {e:?}", pos.fen())))
}

fn c03_node(b: &Board, pos: &Pos, legal: &[Mv], last: Option<(&Pos, Mv)>, st: &mut Stats) -> Result<(), String> {
    let ctx = |s: String| format!("C03 at `{}`{}: {s}", pos.fen(), last.map(|(p, m)| format!(" (reached by {m} from `{}`)", p.fen())).unwrap_or_default());
    if b.in_check() != pos.in_check() {
        return Err(ctx(format!("in_check()={} but the king is{} attacked", b.in_check(), if pos.in_check() { "" } else { " not" })));
    }
    let want = map_status(pos.status());
    if b.state() != want {
        return Err(ctx(format!("state()={:?}, reference {:?}", b.state(), want)));
    }
    let scratch = to_board(pos).map_err(&ctx)?;
    let (g1, g2) = (gen_moves(b), gen_moves(&scratch));
    if g1 != g2 || g1 != legal {
        return Err(ctx(format!("legal moves differ: moved [{}] scratch [{}] reference [{}]", fmt_moves(&g1), fmt_moves(&g2), fmt_moves(legal))));
    }
    if scratch.in_check() != b.in_check() || scratch.state() != b.state() {
        return Err(ctx("check status differs between moved and scratch board".into()));
    }
    same_board(b, &scratch, "moved vs parsed-from-scratch").map_err(&ctx)?;
    let (pa, pb) = (format!("{b:#?}"), format!("{scratch:#?}"));
    if pa != pb {
        return Err(ctx(format!("alternate debug rendering differs:\n{pa}\nvs\n{pb}")));
    }
    if let Some(r) = build_with_builder(pos) {
        let bb2 = r.map_err(&ctx)?;
        same_board(b, &bb2, "moved vs builder-from-scratch").map_err(&ctx)?;
        st.class("compared with builder board");
    }
    st.eval(1);
    // non-triviality: what did the last move do?
    let mut nt = false;
    let status = pos.status();
    if matches!(status, Status::Mate) {
        st.class("checkmate");
        nt = true;
    }
    if matches!(status, Status::Draw) {
        st.class(if legal.is_empty() { "stalemate" } else { "draw by 100 half-moves" });
        nt = true;
    }
    if let Some((prev, m)) = last {
        let chk = pos.checkers();
        if !chk.is_empty() {
            nt = true;
            let k = prev.kind(m);
            let direct = chk.contains(&m.to);
            let cls = if chk.len() >= 2 {
                "double check"
            } else if k.castle_k || k.castle_q {
                "check by castling rook"
            } else if k.en_passant && !direct {
                "en-passant discovered check"
            } else if k.promotion && direct {
                match m.promo {
                    Some(P::Knight) => "promotion check (knight)",
                    Some(P::Queen) => "promotion check (queen)",
                    Some(P::Rook) => "promotion check (rook)",
                    _ => "promotion check (bishop)",
                }
            } else if !direct {
                "discovered check"
            } else {
                match pos.sq[m.to as usize].map(|x| x.1) {
                    Some(P::Pawn) => "direct check (pawn)",
                    Some(P::Knight) => "direct check (knight)",
                    Some(P::Bishop) => "direct check (bishop)",
                    Some(P::Rook) => "direct check (rook)",
                    Some(P::Queen) => "direct check (queen)",
                    _ => "direct check (other)",
                }
            };
            st.class(cls);
        }
        let f = features(pos, legal);
        if f.pinned {
            st.class("pin present after move");
            nt = true;
        }
        if nt {
            st.nontrivial(digest(&(pos.key(), m)));
        }
    } else if nt {
        st.nontrivial(digest(&pos.key()));
    }
    if nt && st.want_sample() {
        st.sample(json!({"fen": pos.fen(), "status": format!("{status:?}"), "last_move": last.map(|(_, m)| m.to_string())}));
    }
    Ok(())
}

fn c05_node(b: &Board, pos: &Pos, st: &mut Stats) -> Result<(), String> {
    let s = pos.fen();
    let ctx = |x: String| format!("C05 at `{s}`: {x}");
    let text = b.to_string();
    if text != s {
        return Err(ctx(format!("to_string() = `{text}` but the canonical FEN is `{s}`")));
    }
    let back: Board = text.parse().map_err(|e| ctx(format!("own output `{text}` does not parse: {e:?}")))?;
    same_board(b, &back, "board vs parse(to_string(board))").map_err(&ctx)?;
    let (pa, pb) = (format!("{b:#?}"), format!("{back:#?}"));
    if pa != pb {
        return Err(ctx("alternate debug rendering differs after round trip".into()));
    }
    // canonical text -> board -> text
    let parsed: Board = s.parse().map_err(|e| ctx(format!("canonical FEN rejected: {e:?}")))?;
    let again = parsed.to_string();
    if again != s {
        return Err(ctx(format!("parse then write gives `{again}`")));
    }
    if let Some(r) = build_with_builder(pos) {
        let bb2 = r.map_err(&ctx)?;
        same_board(&parsed, &bb2, "parser vs builder").map_err(&ctx)?;
        st.class("builder/parser agreement checked");
    }
    st.eval(1);
    let rights = pos.castle.iter().filter(|x| **x).count();
    let alternating = s.split(' ').next().unwrap().split('/').any(|r| r.len() >= 5);
    let nt = pos.ep.is_some() || (1..=3).contains(&rights) || alternating || pos.half >= 1000 || pos.full >= 1000;
    if pos.ep.is_some() {
        st.class(if pos.turn == C::White { "marker, White to move" } else { "marker, Black to move" });
    }
    st.class(&format!("rights subset size {rights}"));
    if pos.full >= 1000 {
        st.class("clock >= 1000");
    }
    if nt && st.nontrivial(digest(&s)) && st.want_sample() {
        st.sample(json!({"fen": s}));
    }
    Ok(())
}

pub struct WalkCfg {
    pub mode: Mode,
    pub all_moves_every: u64,
    pub full_sweep_every: u64,
}

pub fn run_play(cfg: &WalkCfg, case: &PlayCase, st: &mut Stats) -> Result<(), String> {
    let Some(root) = build_root(&case.root) else {
        if !st.frozen {
            st.rejected += 1;
        }
        return Ok(());
    };
    let mut pos = apply_clocks(root, case);
    let mut b = to_board(&pos)?;
    if cfg.mode == Mode::C02 && pos.castle.iter().all(|x| !*x) && (case.aux >> 8) % 4 == 0 {
        // "clock values below the 16-bit limit": the parser reads at most four digits, so boards
        // with larger full-move numbers come from the builder (possible when no right is held)
        let mut big = pos.clone();
        big.full = 10_000 + ((case.aux >> 16) % 55_000) as u32;
        if (case.aux >> 12) % 2 == 0 && big.ep.is_none() {
            // "clock values below the 16-bit limit" holds for the half-move clock too
            big.half = 10_000 + ((case.aux >> 32) % 55_000) as u32;
        }
        if let Some(Ok(bb2)) = build_with_builder(&big) {
            pos = big;
            b = bb2;
            st.class("root with a five-digit full-move number (builder)");
        }
    }
    let mut aux = Expand(case.aux);
    let mut last: Option<(Pos, Mv)> = None;
    // recycled output buffer for move_into: starts as an unrelated position with its own clocks
    let mut scratch: Board = "r3k2r/8/8/8/1b6/8/3P4/R3K2R w KQkq - 37 61".parse().map_err(|e| format!("scratch board: {e:?}"))?;
    let mut node = case.aux % 64; // phase of the periodic deep checks varies by case
    match &case.root {
        Root::Named { .. } => st.class("root: named"),
        Root::Synth(_) => st.class("root: synthetic placement"),
        Root::Motif { kind, .. } => st.class(&format!("root: motif {}", kind % MOTIFS)),
        Root::Fen(_) => st.class("root: explicit"),
    }
    for ply in 0..=case.choices.len() {
        let legal = pos.legal();
        node += 1;
        match cfg.mode {
            Mode::C01 => c01_node(&b, &pos, &legal, &mut aux, st, mix(case.aux, node) % cfg.full_sweep_every == 0)?,
            Mode::C02 => {
                if node % cfg.all_moves_every == 0 {
                    for &m in &legal {
                        c02_move(&b, &pos, m, st)?;
                    }
                    c02_refusals(&b, &pos, &legal, &mut aux, st)?;
                }
            }
            Mode::C03 => c03_node(&b, &pos, &legal, last.as_ref().map(|(p, m)| (p, *m)), st)?,
            Mode::C05 => c05_node(&b, &pos, st)?,
        }
        if ply == case.choices.len() || legal.is_empty() {
            break;
        }
        let (bias, idx) = case.choices[ply];
        let m = pick(&pos, &legal, bias, idx);
        if cfg.mode == Mode::C02 {
            c02_move(&b, &pos, m, st)?;
        }
        let next = pos.apply(m);
        // "playing a move" is any of the three checked operations; move_into writes into a buffer
        // that holds an unrelated earlier position (other clocks, rights, check state), as a
        // search or perft loop that recycles its boards does
        let nb = if cfg.mode == Mode::C02 {
            b.move_new(to_cm(m))
        } else {
            match mix(case.aux, node.wrapping_mul(3) + 7) % 3 {
                0 => b.move_new(to_cm(m)),
                1 => {
                    let mut x = b;
                    x.move_mut(to_cm(m)).then_some(x)
                }
                _ => {
                    let ok = b.move_into(to_cm(m), &mut scratch);
                    let out = scratch;
                    scratch = b;
                    if !st.frozen {
                        st.class("move played with move_into into a recycled buffer");
                    }
                    ok.then_some(out)
                }
            }
        };
        let Some(nb) = nb else {
            return Err(format!("a checked move operation refuses legal {m} at `{}`", pos.fen()));
        };
        if squares(&nb) != next.sq {
            // every mode needs the walk itself to stay in lockstep
            return Err(format!("after {m} at `{}` placement is `{nb}` but the reference says `{}`", pos.fen(), next.fen()));
        }
        last = Some((pos, m));
        pos = next;
        b = nb;
    }
    Ok(())
}

pub fn chess_move_any(from: u8, to: u8, promo: Option<P>) -> ChessMove {
    to_cm(Mv { from, to, promo })
}

#[allow(dead_code)]
fn unused(_: i8) {
    let _ = (fl(0), rk(0));
}
