//! Engine observation shared by C07, C11, C12, C13: a counting timeout that makes "the
//! instant the limit expires" an integer, and a pass observer (a minimal tracing
//! subscriber that records how many polls had been consumed when each deepening pass
//! started).

use chess_engine::{Engine, Score, ThreeFold, Timeout};
use chess_movegen::{Board, ChessMove};
use std::cell::{Cell, RefCell};
use tracing::field::{Field, Visit};
use tracing::span::{Attributes, Id, Record};
use tracing::subscriber::Interest;
use tracing::{Event, Metadata, Subscriber};

thread_local! {
    static POLLS: Cell<u64> = const { Cell::new(0) };
    static FORCE_EXPIRE: Cell<bool> = const { Cell::new(false) };
    static STOP_AT_DEPTH: Cell<Option<u64>> = const { Cell::new(None) };
    static PASSES: RefCell<Vec<(u64, u64)>> = const { RefCell::new(Vec::new()) };
    static EXPIRED: Cell<bool> = const { Cell::new(false) };
    static PASSES_AFTER_EXPIRY: Cell<u64> = const { Cell::new(0) };
    static LAST_EVENT_POLLS: Cell<u64> = const { Cell::new(u64::MAX) };
    static PASSES_WITHOUT_POLL: Cell<u64> = const { Cell::new(0) };
}

/// payload of the unwind that stands for "does not terminate after expiry"
pub struct Runaway;

/// payload of the unwind that stands for "searches on without ever consulting the limit"
pub struct Unpolled;

/// Node-bounded mode (always on in `replay-case`, which is also how a stalled worker's case
/// is triaged by the driver): the engine's TRACE events (two per search node) are counted
/// and a search that produces more than `UNPOLLED_EVENT_BOUND` of them without a single poll
/// of its time limit in between is unwound and reported as not terminating. The count is a
/// pure function of the code and the case, unlike a wall-clock watchdog.
pub static NODE_MODE: std::sync::atomic::AtomicBool = std::sync::atomic::AtomicBool::new(false);
pub const UNPOLLED_EVENT_BOUND: u64 = 20_000_000;

pub fn node_mode() -> bool {
    NODE_MODE.load(std::sync::atomic::Ordering::Relaxed)
}

thread_local! {
    static EVENTS_SINCE_POLL: Cell<u64> = const { Cell::new(0) };
    static OBS_NEST: Cell<u32> = const { Cell::new(0) };
}

fn count_node_event() {
    let n = EVENTS_SINCE_POLL.with(|c| {
        c.set(c.get() + 1);
        c.get()
    });
    if n > UNPOLLED_EVENT_BOUND {
        EVENTS_SINCE_POLL.with(|c| c.set(0));
        std::panic::panic_any(Unpolled)
    }
}

fn is_node_event(meta: &Metadata<'_>) -> bool {
    node_mode() && meta.is_event() && *meta.level() == tracing::Level::TRACE && meta.target().starts_with("chess_engine")
}

/// run `f` under the pass observer (and, in node mode, the node counter)
pub fn observed<R>(f: impl FnOnce() -> R) -> R {
    struct Nest;
    impl Drop for Nest {
        fn drop(&mut self) {
            OBS_NEST.with(|n| n.set(n.get() - 1));
        }
    }
    OBS_NEST.with(|n| n.set(n.get() + 1));
    let _g = Nest;
    EVENTS_SINCE_POLL.with(|c| c.set(0));
    tracing::subscriber::with_default(PassObserver, f)
}

/// in node mode: run an arbitrary search closure under the node counter; Err = unwound as unpolled
pub fn node_guarded<R>(f: impl FnOnce() -> R) -> R {
    if node_mode() && OBS_NEST.with(|n| n.get()) == 0 {
        observed(f)
    } else {
        f()
    }
}

pub const POST_EXPIRY_POLL_BOUND: u64 = 10_000;

pub struct CountingTimeout {
    pub limit: u64,
    expired_at: Cell<Option<u64>>,
}

impl CountingTimeout {
    pub fn new(limit: u64) -> Self {
        POLLS.with(|p| p.set(0));
        FORCE_EXPIRE.with(|f| f.set(false));
        EXPIRED.with(|f| f.set(false));
        PASSES_AFTER_EXPIRY.with(|f| f.set(0));
        LAST_EVENT_POLLS.with(|f| f.set(u64::MAX));
        PASSES_WITHOUT_POLL.with(|f| f.set(0));
        EVENTS_SINCE_POLL.with(|f| f.set(0));
        CountingTimeout { limit, expired_at: Cell::new(None) }
    }
    pub fn polls(&self) -> u64 {
        POLLS.with(|p| p.get())
    }
}

impl Timeout for CountingTimeout {
    fn is_complete(&self) -> bool {
        EVENTS_SINCE_POLL.with(|c| c.set(0));
        let p = POLLS.with(|c| {
            let v = c.get();
            c.set(v + 1);
            v
        });
        // expiry is monotone, as a real deadline is
        let done = p >= self.limit || FORCE_EXPIRE.with(|f| f.get());
        if done {
            EXPIRED.with(|f| f.set(true));
            match self.expired_at.get() {
                None => self.expired_at.set(Some(p)),
                Some(e) => {
                    if p > e + POST_EXPIRY_POLL_BOUND {
                        std::panic::panic_any(Runaway)
                    }
                }
            }
        }
        done
    }
}

struct PassObserver;

struct DepthVisitor {
    depth: Option<u64>,
    is_start: bool,
}

impl Visit for DepthVisitor {
    fn record_u64(&mut self, field: &Field, value: u64) {
        if field.name() == "depth" {
            self.depth = Some(value);
        }
    }
    fn record_i64(&mut self, field: &Field, value: i64) {
        if field.name() == "depth" {
            self.depth = Some(value as u64);
        }
    }
    fn record_str(&mut self, field: &Field, value: &str) {
        if field.name() == "message" && value == "start depth" {
            self.is_start = true;
        }
    }
    fn record_debug(&mut self, field: &Field, value: &dyn std::fmt::Debug) {
        // the message of `tracing::debug!(..., "start depth")` arrives as fmt::Arguments;
        // the board field (a Display wrapper) is deliberately never formatted
        if field.name() == "message" {
            use std::fmt::Write;
            let mut s = String::new();
            let _ = write!(s, "{value:?}");
            if s == "start depth" {
                self.is_start = true;
            }
        }
    }
}

fn wanted(meta: &Metadata<'_>) -> bool {
    // the "start depth" event: DEBUG, from the engine, with fields {color, depth, board}
    // and none of the per-move fields
    if !meta.is_event() || *meta.level() != tracing::Level::DEBUG || !meta.target().starts_with("chess_engine") {
        return false;
    }
    let f = meta.fields();
    f.field("depth").is_some() && f.field("move").is_none() && f.field("current_depth").is_none() && f.field("score").is_none()
}

impl Subscriber for PassObserver {
    fn register_callsite(&self, meta: &'static Metadata<'static>) -> Interest {
        if wanted(meta) || is_node_event(meta) {
            Interest::always()
        } else {
            Interest::never()
        }
    }
    fn enabled(&self, meta: &Metadata<'_>) -> bool {
        wanted(meta) || is_node_event(meta)
    }
    fn max_level_hint(&self) -> Option<tracing::level_filters::LevelFilter> {
        Some(if node_mode() { tracing::level_filters::LevelFilter::TRACE } else { tracing::level_filters::LevelFilter::DEBUG })
    }
    fn new_span(&self, _: &Attributes<'_>) -> Id {
        Id::from_u64(1)
    }
    fn record(&self, _: &Id, _: &Record<'_>) {}
    fn record_follows_from(&self, _: &Id, _: &Id) {}
    fn event(&self, event: &Event<'_>) {
        if *event.metadata().level() == tracing::Level::TRACE {
            count_node_event();
            return;
        }
        let mut v = DepthVisitor { depth: None, is_start: false };
        event.record(&mut v);
        if v.is_start {
            if let Some(d) = v.depth {
                let polls = POLLS.with(|p| p.get());
                // a search that keeps starting passes after the limit expired (possibly without
                // ever polling again) does not terminate
                if EXPIRED.with(|f| f.get()) {
                    let n = PASSES_AFTER_EXPIRY.with(|c| {
                        c.set(c.get() + 1);
                        c.get()
                    });
                    if n > 1000 {
                        std::panic::panic_any(Runaway)
                    }
                }
                // passes that start without a single poll in between can never be stopped by any limit
                if LAST_EVENT_POLLS.with(|c| c.replace(polls)) == polls {
                    let n = PASSES_WITHOUT_POLL.with(|c| {
                        c.set(c.get() + 1);
                        c.get()
                    });
                    if n > 1000 {
                        std::panic::panic_any(Runaway)
                    }
                } else {
                    PASSES_WITHOUT_POLL.with(|c| c.set(0));
                }
                PASSES.with(|ps| {
                    let mut v = ps.borrow_mut();
                    if v.len() < 1 << 20 {
                        v.push((d, polls));
                    }
                });
                if STOP_AT_DEPTH.with(|s| s.get()) == Some(d) {
                    FORCE_EXPIRE.with(|f| f.set(true));
                }
            }
        }
    }
    fn enter(&self, _: &Id) {}
    fn exit(&self, _: &Id) {}
}

#[derive(Clone, Debug)]
pub struct Profile {
    /// starts[d] = polls consumed when pass d started (starts[0] = 0); pass d-1 finished
    /// before limit k iff k >= starts[d]
    pub starts: Vec<u64>,
    pub total_polls: u64,
    pub result: (Option<ChessMove>, Score),
    pub max_depth: u16,
    /// the engine returned by itself (mate score) before the stop depth / cap
    pub self_terminated: bool,
    pub hit_cap: bool,
    /// the "start depth" log line was never seen (someone removed it): boundaries unknown
    pub observer_missing: bool,
    /// boundaries were recovered by bisection over public results instead (fallback)
    pub boundaries_by_bisection: bool,
}

pub enum SearchError {
    Runaway,
    Unpolled,
    Panic(String),
}

/// returns ((move, score), max_depth, polls consumed, did the limit expire during the call)
pub fn run_search(board: &Board, tf: &ThreeFold, limit: u64, positional: bool) -> Result<((Option<ChessMove>, Score), u16, u64, bool), SearchError> {
    let mut e = Engine::default();
    run_search_on(&mut e, board, tf, limit, positional)
}

/// the same on a caller-owned engine (an engine object may be reused for many searches, as
/// the plugin does): whatever an earlier search left in it must not matter
pub fn run_search_on(e: &mut Engine, board: &Board, tf: &ThreeFold, limit: u64, positional: bool) -> Result<((Option<ChessMove>, Score), u16, u64, bool), SearchError> {
    let t = CountingTimeout::new(limit);
    e.positional = positional;
    let r = node_guarded(|| std::panic::catch_unwind(std::panic::AssertUnwindSafe(|| e.search(board, tf, &t))));
    match r {
        Ok(x) => Ok((x, e.max_depth, t.polls(), t.expired_at.get().is_some())),
        Err(p) => {
            if p.is::<Runaway>() {
                Err(SearchError::Runaway)
            } else if p.is::<Unpolled>() {
                Err(SearchError::Unpolled)
            } else {
                let loc = crate::fw::LAST_PANIC_LOC.with(|l| l.borrow_mut().take()).unwrap_or_default();
                Err(SearchError::Panic(format!("{} {loc}", crate::fw::panic_message(&*p))))
            }
        }
    }
}

/// a search under a caller-supplied limit (e.g. the engine's own wall-clock timeout); in node
/// mode it runs under the node counter. Err = panic message or the "unpolled" verdict.
pub fn search_plain<T: chess_engine::TimeoutRef>(e: &mut Engine, board: &Board, tf: &ThreeFold, t: T) -> Result<(Option<ChessMove>, Score), String> {
    let r = node_guarded(|| std::panic::catch_unwind(std::panic::AssertUnwindSafe(|| e.search(board, tf, t))));
    match r {
        Ok(x) => Ok(x),
        Err(p) => {
            if p.is::<Unpolled>() || p.is::<Runaway>() {
                Err(UNPOLLED_TEXT.to_string())
            } else {
                let loc = crate::fw::LAST_PANIC_LOC.with(|l| l.borrow_mut().take()).unwrap_or_default();
                Err(format!("panic: {} {loc}", crate::fw::panic_message(&*p)))
            }
        }
    }
}

pub const UNPOLLED_TEXT: &str = "visits more than 10 million search nodes without consulting its time limit once (it cannot stop when the limit expires: does not terminate)";

thread_local! {
    /// set once a search was observed to emit no "start depth" event at all
    static OBSERVER_DEAD: Cell<bool> = const { Cell::new(false) };
}

/// poll budget of the fallback path (no pass events): boundaries beyond it are not looked for
const FALLBACK_CAP: u64 = 40_000;

/// Fallback when the engine's "start depth" log line is gone (removed, renamed, different
/// fields): recover the boundaries from public results only. s_1 = least k that yields a move,
/// s_d (d >= 2) = least k after which `max_depth` reports d-1; both are monotone in k, so an
/// exponential probe followed by bisection finds them at a cost proportional to the boundary.
fn profile_by_bisection(board: &Board, tf: &ThreeFold, stop_depth: u64, positional: bool) -> Result<Profile, SearchError> {
    let (result, max_depth, total_polls, expired) = run_search(board, tf, FALLBACK_CAP, positional)?;
    let hit_cap = expired;
    let least = |from: u64, pred: &dyn Fn(&((Option<ChessMove>, Score), u16, u64, bool)) -> bool| -> Result<Option<u64>, SearchError> {
        let top = total_polls.min(FALLBACK_CAP) + 1;
        // exponential probe upward from `from`
        let (mut lo, mut step, mut hi) = (from, 1u64, None);
        while lo + step <= top {
            let k = lo + step;
            if pred(&run_search(board, tf, k, positional)?) {
                hi = Some(k);
                break;
            }
            lo = k;
            step *= 2;
        }
        let mut hi = match hi {
            Some(h) => h,
            None => {
                if lo < top && pred(&run_search(board, tf, top, positional)?) {
                    top
                } else {
                    return Ok(None);
                }
            }
        };
        if pred(&run_search(board, tf, from, positional)?) {
            return Ok(Some(from));
        }
        let mut lo = lo.max(from) + 1; // pred(lo-1) is false, pred(hi) is true
        while lo < hi {
            let mid = (lo + hi) / 2;
            if pred(&run_search(board, tf, mid, positional)?) {
                hi = mid;
            } else {
                lo = mid + 1;
            }
        }
        Ok(Some(hi))
    };
    let mut starts = vec![0u64];
    if let Some(s1) = least(0, &|r| r.0 .0.is_some())? {
        starts.push(s1);
        for d in 1..stop_depth.min(3) {
            match least(*starts.last().unwrap(), &|r| r.0 .0.is_some() && r.1 as u64 >= d)? {
                Some(sd) => starts.push(sd),
                None => break,
            }
        }
    }
    Ok(Profile { observer_missing: true, boundaries_by_bisection: true, self_terminated: !hit_cap, hit_cap, starts, total_polls, result, max_depth })
}

/// One instrumented run without a limit (up to `cap` polls), stopped when pass `stop_depth`
/// starts.
pub fn profile(board: &Board, tf: &ThreeFold, cap: u64, stop_depth: u64, positional: bool) -> Result<Profile, SearchError> {
    if OBSERVER_DEAD.with(|d| d.get()) {
        return profile_by_bisection(board, tf, stop_depth, positional);
    }
    PASSES.with(|p| p.borrow_mut().clear());
    STOP_AT_DEPTH.with(|s| s.set(Some(stop_depth)));
    // the first observed run of a worker uses a small cap: if the pass events are missing we
    // find out cheaply
    let r = observed(|| run_search(board, tf, cap, positional));
    STOP_AT_DEPTH.with(|s| s.set(None));
    let forced = FORCE_EXPIRE.with(|f| f.get());
    let (result, max_depth, total_polls, _expired) = r?;
    let passes = PASSES.with(|p| p.borrow().clone());
    if passes.is_empty() {
        // pass 0 announces itself before the first poll, so an event-less run means the line is gone
        OBSERVER_DEAD.with(|d| d.set(true));
        return profile_by_bisection(board, tf, stop_depth, positional);
    }
    let mut starts = vec![];
    for (d, polls) in &passes {
        if *d as usize == starts.len() {
            starts.push(*polls);
        }
    }
    let hit_cap = !forced && total_polls > cap;
    Ok(Profile { boundaries_by_bisection: false, observer_missing: false, self_terminated: !forced && !hit_cap, hit_cap, starts, total_polls, result, max_depth })
}

pub fn negate(s: Score) -> Score {
    match s {
        Score::Min => Score::Max,
        Score::Max => Score::Min,
        Score::Raw(x) => Score::Raw(x.wrapping_neg()),
        Score::WhiteMateIn(n) => Score::BlackMateIn(n),
        Score::BlackMateIn(n) => Score::WhiteMateIn(n),
    }
}

pub fn score_eq(a: Score, b: Score) -> bool {
    match (a, b) {
        (Score::Min, Score::Min) | (Score::Max, Score::Max) => true,
        (Score::Raw(x), Score::Raw(y)) => x == y,
        (Score::WhiteMateIn(x), Score::WhiteMateIn(y)) => x == y,
        (Score::BlackMateIn(x), Score::BlackMateIn(y)) => x == y,
        _ => false,
    }
}


// ---------------------------------------------------------------------------------------
// "logging on" configuration: a subscriber that enables INFO and DEBUG (not TRACE) events of
// the engine and formats every field, the way `chess-cli -v` or the WASM front end do. The
// search must behave the same (and in particular not panic) with logging on.

struct LoudSubscriber;

struct FormatAll(usize);

impl Visit for FormatAll {
    fn record_debug(&mut self, _field: &Field, value: &dyn std::fmt::Debug) {
        use std::fmt::Write;
        let mut s = String::new();
        let _ = write!(s, "{value:?}");
        self.0 += s.len();
    }
}

impl Subscriber for LoudSubscriber {
    fn register_callsite(&self, meta: &'static Metadata<'static>) -> Interest {
        if *meta.level() <= tracing::Level::DEBUG || is_node_event(meta) {
            Interest::always()
        } else {
            Interest::never()
        }
    }
    fn enabled(&self, meta: &Metadata<'_>) -> bool {
        *meta.level() <= tracing::Level::DEBUG || is_node_event(meta)
    }
    fn max_level_hint(&self) -> Option<tracing::level_filters::LevelFilter> {
        Some(if node_mode() { tracing::level_filters::LevelFilter::TRACE } else { tracing::level_filters::LevelFilter::DEBUG })
    }
    fn new_span(&self, _: &Attributes<'_>) -> Id {
        Id::from_u64(1)
    }
    fn record(&self, _: &Id, _: &Record<'_>) {}
    fn record_follows_from(&self, _: &Id, _: &Id) {}
    fn event(&self, event: &Event<'_>) {
        if *event.metadata().level() == tracing::Level::TRACE {
            count_node_event();
            return;
        }
        let mut v = FormatAll(0);
        event.record(&mut v);
    }
    fn enter(&self, _: &Id) {}
    fn exit(&self, _: &Id) {}
}

/// the same search with INFO/DEBUG logging enabled and every event field formatted
pub fn run_search_loud(board: &Board, tf: &ThreeFold, limit: u64, positional: bool) -> Result<((Option<ChessMove>, Score), u16, u64, bool), SearchError> {
    OBS_NEST.with(|n| n.set(n.get() + 1));
    EVENTS_SINCE_POLL.with(|c| c.set(0));
    let r = tracing::subscriber::with_default(LoudSubscriber, || run_search(board, tf, limit, positional));
    OBS_NEST.with(|n| n.set(n.get() - 1));
    r
}
