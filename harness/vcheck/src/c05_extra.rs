//! C05 directed part: the three constructors agree on the standard position; every rights
//! subset and every marker file for either side round-trips on a fixed skeleton.

use crate::conv::*;
use crate::fw::*;
use crate::play::{build_with_builder, same_board};
use chess_bitboard as bb;
use chess_movegen::Board;
use refchess::{Pos, C, P};
use serde_json::{json, Value};

const STD: &str = "rnbqkbnr/pppppppp/8/8/8/8/PPPPPPPP/RNBQKBNR w KQkq - 0 0";

fn standard_three_ways() -> Result<(), String> {
    let a = Board::standard();
    let b: Board = STD.parse().map_err(|e| format!("standard FEN rejected: {e:?}"))?;
    same_board(&a, &b, "standard() vs parser")?;
    if a.to_string() != STD {
        return Err(format!("standard().to_string() = `{a}`"));
    }
    if refchess::Pos::start().fen() != STD {
        return Err("reference start differs from the standard FEN".into());
    }
    if gen_moves(&a) != refchess::Pos::start().legal() {
        return Err("standard() legal moves differ from the reference".into());
    }
    // builder script placing the 32 men (rights cannot be granted through the builder, so
    // compare placement, turn, clocks and piece hash via the text of a rights-free twin)
    let mut p = Pos::start();
    p.castle = [false; 4];
    let built = build_with_builder(&p).unwrap()?;
    let parsed = to_board(&p)?;
    same_board(&built, &parsed, "builder vs parser on the 32-men placement")?;
    if squares(&built) != squares(&a) {
        return Err("builder placement differs from standard()".into());
    }
    Ok(())
}

fn skeleton(rights: u8, ep: Option<(u8, bool)>) -> Pos {
    // kings and rooks at home, a few pawns; marker pawn added on request
    let mut p = Pos::empty();
    for (s, c, k) in [(4u8, C::White, P::King), (0, C::White, P::Rook), (7, C::White, P::Rook), (60, C::Black, P::King), (56, C::Black, P::Rook), (63, C::Black, P::Rook)] {
        p.sq[s as usize] = Some((c, k));
    }
    for i in 0..4 {
        p.castle[i] = rights & (1 << i) != 0;
    }
    p.full = 1;
    if let Some((f, white_to_move)) = ep {
        p.turn = if white_to_move { C::White } else { C::Black };
        let pr = if white_to_move { 4 } else { 3 };
        p.sq[(pr * 8 + f) as usize] = Some((p.turn.flip(), P::Pawn));
        p.ep = Some(f);
    }
    p
}

fn one(p: &Pos) -> Result<(), String> {
    let s = p.fen();
    let b: Board = s.parse().map_err(|e| format!("canonical `{s}` rejected: {e:?}"))?;
    if b.to_string() != s {
        return Err(format!("parse/write of `{s}` gives `{b}`"));
    }
    let back: Board = b.to_string().parse().map_err(|e| format!("`{b}` does not re-parse: {e:?}"))?;
    same_board(&b, &back, "round trip")?;
    if let Some(r) = build_with_builder(p) {
        same_board(&b, &r?, "parser vs builder")?;
    }
    Ok(())
}

pub fn directed(ctx: &WorkerCtx) -> Result<(), Fail> {
    if ctx.idx != 0 {
        return Ok(());
    }
    let fail = |v: Value, d: String| Fail { case: v, detail: d };
    guarded(standard_three_ways).unwrap_or_else(Err).map_err(|d| fail(json!({"directed": "standard"}), format!("C05 {d}")))?;
    let mut st = ctx.stats.borrow_mut();
    for rights in 0..16u8 {
        for ep in std::iter::once(None).chain((0..8u8).flat_map(|f| [Some((f, true)), Some((f, false))])) {
            for (half, full) in [(0u32, 0u32), (0, 9999), (7, 1000), (99, 42), (100, 1)] {
                let mut p = skeleton(rights, ep);
                p.half = if ep.is_some() { 0 } else { half };
                p.full = full;
                let v = json!({"directed": "skeleton", "fen": p.fen()});
                {
            ctx.about_to_run(&v);
            guarded(|| one(&p))
        }
        .unwrap_or_else(Err).map_err(|d| fail(v, format!("C05 {d}")))?;
                st.eval(1);
                st.nontrivial(digest(&p.fen()));
                st.class("directed skeleton (rights subset x marker x clocks)");
            }
        }
    }
    // the standard placement is a special case worth its own family: rights are lost by moving
    // pieces that can return home
    for p in standard_placement_family() {
        let v = json!({"directed": "skeleton", "fen": p.fen()});
        {
            ctx.about_to_run(&v);
            guarded(|| one(&p))
        }
        .unwrap_or_else(Err).map_err(|d| fail(v, format!("C05 {d}")))?;
        st.eval(1);
        st.nontrivial(digest(&p.fen()));
        st.class("directed: standard placement x rights subset x side to move x clocks");
    }
    // material extremes that are still reachable (nine queens, ten knights / bishops / rooks)
    for p in crate::gen::material_extremes() {
        let v = json!({"directed": "skeleton", "fen": p.fen()});
        {
            ctx.about_to_run(&v);
            guarded(|| one(&p))
        }
        .unwrap_or_else(Err).map_err(|d| fail(v, format!("C05 {d}")))?;
        st.eval(1);
        st.nontrivial(digest(&p.fen()));
        st.class("directed: reachable material extremes");
    }
    // longest texts: checkerboard-fragmented placements (32 men, every rank `1p1p1p1p`-like,
    // 71 bytes of placement) with rights and four-digit clocks: 85-88 byte FENs, which random
    // play practically never reaches
    let mut g = Expand(ctx.wseed(505));
    let n = ctx.tier.pick(300, 6000);
    let mut made = 0;
    for _ in 0..n * 4 {
        if made >= n {
            break;
        }
        let Some(p) = fragmented(&mut g) else { continue };
        let v = json!({"directed": "skeleton", "fen": p.fen()});
        {
            ctx.about_to_run(&v);
            guarded(|| one(&p))
        }
        .unwrap_or_else(Err).map_err(|d| fail(v, format!("C05 {d}")))?;
        made += 1;
        st.eval(1);
        st.nontrivial(digest(&p.fen()));
        if p.fen().len() >= 80 {
            st.class("directed: FEN text of 80 bytes or more");
        }
    }
    let _ = bb::Pos::A1;
    Ok(())
}

/// a playable position on a checkerboard pattern of 30 occupied squares whose material is
/// reachable: per side six original officers (one bishop: the squares have one colour) plus
/// eight men that are each a pawn or a promoted officer
fn fragmented(g: &mut Expand) -> Option<Pos> {
    let parity = g.below(2) as u8;
    let occ: Vec<u8> = (0..64u8).filter(|s| (s % 8 + s / 8) % 2 == parity).collect();
    let mut p = Pos::empty();
    // kings: with parity 0 a1/c1/e1/g1 and b8/d8/f8/h8 are occupied squares, with parity 1 the others
    let wk = if parity == 0 { 4u8 } else { [1u8, 3, 5, 7][g.below(4) as usize] };
    let bk = if parity == 1 { 60u8 } else { [57u8, 59, 61, 63][g.below(4) as usize] };
    p.sq[wk as usize] = Some((C::White, P::King));
    p.sq[bk as usize] = Some((C::Black, P::King));
    let mut rest: Vec<u8> = occ.iter().copied().filter(|s| *s != wk && *s != bk).collect();
    for i in (1..rest.len()).rev() {
        let j = g.below(i as u64 + 1) as usize;
        rest.swap(i, j);
    }
    // all occupied squares have one colour, so a side's second bishop would already be a
    // promoted one: six original officers + eight pawns-or-promotions = fourteen men a side
    for (c, squares) in [(C::White, &rest[..14]), (C::Black, &rest[14..28])] {
        let mut kinds: Vec<P> = vec![P::Knight, P::Knight, P::Bishop, P::Rook, P::Rook, P::Queen];
        let inner = squares.iter().filter(|s| (1..=6).contains(&(**s / 8))).count();
        let mut pawns = 0;
        for _ in 0..8 {
            if pawns < inner && g.below(5) < 3 {
                pawns += 1;
            } else {
                kinds.push([P::Knight, P::Bishop, P::Rook, P::Queen][g.below(4) as usize]);
            }
        }
        // pawns go on squares off the back ranks, officers on the rest (shuffled above)
        let mut left = pawns;
        for &s in squares.iter() {
            let back = s / 8 == 0 || s / 8 == 7;
            if !back && left > 0 {
                p.sq[s as usize] = Some((c, P::Pawn));
                left -= 1;
            } else {
                let k = kinds.pop()?;
                p.sq[s as usize] = Some((c, k));
            }
        }
    }
    // rights where king and rook happen to be at home
    if parity == 0 && p.sq[0] == Some((C::White, P::Rook)) {
        p.castle[1] = true;
    }
    if parity == 1 && p.sq[56] == Some((C::Black, P::Rook)) {
        p.castle[3] = true;
    }
    p.turn = if g.below(2) == 0 { C::White } else { C::Black };
    p.half = [9999u32, 1234, 100, 99, 1000, 255, 256][g.below(7) as usize];
    p.full = [9999u32, 9998, 1000, 4321][g.below(4) as usize];
    if !p.unplayable_reasons().is_empty() {
        p.turn = p.turn.flip();
    }
    if p.plausible() {
        Some(p)
    } else {
        None
    }
}

/// the standard placement with every subset of the castling rights (knights and rooks can go
/// out and come back), either side to move, several clock pairs
fn standard_placement_family() -> Vec<Pos> {
    let mut out = vec![];
    for rights in 0..16u8 {
        for turn in [C::White, C::Black] {
            for (half, full) in [(0u32, 1u32), (8, 4), (8, 5), (99, 60), (100, 51), (1234, 999), (9999, 9999)] {
                let mut p = Pos::start();
                for i in 0..4 {
                    p.castle[i] = rights & (1 << i) != 0;
                }
                p.turn = turn;
                p.half = half;
                p.full = full;
                out.push(p);
            }
        }
    }
    out
}

pub fn replay(v: &Value) -> Result<(), String> {
    match v["directed"].as_str() {
        Some("standard") => standard_three_ways(),
        Some("skeleton") => {
            let p = Pos::from_fen(v["fen"].as_str().ok_or("no fen")?).ok_or("bad fen")?;
            one(&p)
        }
        _ => Err("unknown directed case".into()),
    }
}

// ---------------------------------------------------------------------------------------
// builder histories: whatever sequence of place / rejected place / remove / turn / marker /
// clock calls led to an accepted board, that board must be identical to the parser's board
// for the same position (==, hash, text, debug forms)

use crate::c06::{read_back, BOp};
use proptest::prelude::*;

#[derive(Clone, Debug, serde::Serialize, serde::Deserialize)]
pub struct BuilderCase {
    pub wk: u8,
    pub bk: u8,
    pub ops: Vec<BOp>,
}

pub fn builder_strategy() -> impl Strategy<Value = BuilderCase> {
    // squares are drawn from a narrow range half of the time so that placements collide
    // with occupied squares (rejected by the builder) and removals hit pieces
    let sq = prop_oneof![1 => any::<u8>(), 1 => 0u8..20];
    let op = prop_oneof![
        8 => (any::<u8>(), sq.clone()).prop_map(|(c, s)| BOp::Place(c, s)),
        3 => sq.prop_map(BOp::Remove),
        1 => any::<bool>().prop_map(BOp::Turn),
        1 => prop::option::of(0u8..8).prop_map(BOp::Ep),
        1 => (0u16..=9999).prop_map(BOp::Half),
        1 => (0u16..=9999).prop_map(BOp::Full),
    ];
    (any::<u8>(), any::<u8>(), prop::collection::vec(op, 0..30)).prop_map(|(wk, bk, ops)| BuilderCase { wk, bk, ops })
}

pub fn builder_case(c: &BuilderCase, st: &mut Stats) -> Result<(), String> {
    let mut b = Board::builder();
    let mut rejected = 0;
    let mut removed = 0;
    // the position the calls describe: each setter is independent of the others and of their
    // order; a placement on an occupied square is refused and changes nothing
    let mut want = Pos::empty();
    let _ = b.place(sq(c.wk % 64), bb::Color::White, bb::Piece::King);
    want.sq[(c.wk % 64) as usize] = Some((C::White, P::King));
    if b.place(sq(c.bk % 64), bb::Color::Black, bb::Piece::King).is_err() {
        rejected += 1;
    } else {
        want.sq[(c.bk % 64) as usize] = Some((C::Black, P::King));
    }
    for op in &c.ops {
        match op {
            BOp::Place(code, s) => {
                let col = if code & 1 == 0 { bb::Color::White } else { bb::Color::Black };
                let p = [bb::Piece::Pawn, bb::Piece::Pawn, bb::Piece::Knight, bb::Piece::Bishop, bb::Piece::Rook, bb::Piece::Queen][((code >> 1) % 6) as usize];
                let refused = b.place(sq(*s % 64), col, p).is_err();
                let occupied = want.sq[(*s % 64) as usize].is_some();
                if refused != occupied {
                    return Err(format!("C05 builder place on {} {} although the square was {}", refchess::sq_name(*s % 64), if refused { "was refused" } else { "succeeded" }, if occupied { "occupied" } else { "empty" }));
                }
                if refused {
                    rejected += 1;
                } else {
                    want.sq[(*s % 64) as usize] = Some((color_from_bb(col), piece_from_bb(p)));
                }
            }
            BOp::Remove(s) => {
                b.remove(sq(*s % 64));
                want.sq[(*s % 64) as usize] = None;
                removed += 1;
            }
            BOp::Turn(x) => {
                b.turn(if *x { bb::Color::Black } else { bb::Color::White });
                want.turn = if *x { C::Black } else { C::White };
            }
            BOp::Ep(f) => {
                b.enpassant(f.map(|f| bb::File::from_u8(f % 8).unwrap()));
                want.ep = f.map(|f| f % 8);
            }
            BOp::Half(x) => {
                b.half_move_clock(*x);
                want.half = *x as u32;
            }
            BOp::Full(x) => {
                b.full_move_clock(*x);
                want.full = *x as u32;
            }
        }
    }
    let Ok(board) = b.build() else {
        st.class("builder history: rejected by validation");
        return Ok(());
    };
    let p = read_back(&board).map_err(|e| format!("C05 builder board: {e}"))?;
    let text = p.fen();
    if text != want.fen() {
        return Err(format!("C05 the builder calls describe `{}` but build() returned `{text}` (history: {:?})", want.fen(), c.ops));
    }
    if board.to_string() != text {
        return Err(format!("C05 builder board prints `{board}` but its squares/fields read back as `{text}`"));
    }
    let parsed: Board = text.parse().map_err(|e| format!("C05 the text `{text}` of a board accepted by the builder is rejected by the parser: {e:?}"))?;
    same_board(&parsed, &board, &format!("parser vs builder history ({rejected} rejected placement(s), {removed} removal(s))"))?;
    let (pa, pb) = (format!("{parsed:#?}"), format!("{board:#?}"));
    if pa != pb {
        return Err(format!("C05 alternate debug rendering differs between parser and builder for `{text}`"));
    }
    if gen_moves(&parsed) != gen_moves(&board) {
        return Err(format!("C05 legal moves differ between parser and builder board for `{text}`"));
    }
    st.eval(1);
    st.class("builder history: accepted and compared with the parser");
    if rejected > 0 {
        st.class("builder history with a rejected placement");
    }
    if rejected > 0 || removed > 0 {
        if st.nontrivial(digest(&(text.clone(), rejected, removed))) && st.want_sample() {
            st.sample(json!({"builder_history": format!("{:?}", c.ops).chars().take(300).collect::<String>(), "fen": text}));
        }
    }
    Ok(())
}
