//! Shared plumbing: statistics, proptest runner, driver/worker processes, evidence,
//! replay files, known findings.

use proptest::strategy::{Strategy, ValueTree};
use proptest::test_runner::{Config, RngAlgorithm, TestCaseError, TestError, TestRng, TestRunner};
use serde_json::{json, Value};
use std::cell::RefCell;
use std::collections::{BTreeMap, HashSet};
use std::hash::{Hash, Hasher};
use std::io::Write;
use std::path::{Path, PathBuf};
use std::process::{Command, Stdio};
use std::time::{Duration, Instant};

pub const VERIF: &str = "/verif";

#[derive(Clone, Copy, PartialEq, Eq, Debug)]
pub enum Tier {
    Quick,
    Thorough,
}

impl Tier {
    pub fn parse(s: &str) -> Option<Tier> {
        match s {
            "quick" => Some(Tier::Quick),
            "thorough" => Some(Tier::Thorough),
            _ => None,
        }
    }
    pub fn name(self) -> &'static str {
        match self {
            Tier::Quick => "quick",
            Tier::Thorough => "thorough",
        }
    }
    pub fn pick<T>(self, q: T, t: T) -> T {
        match self {
            Tier::Quick => q,
            Tier::Thorough => t,
        }
    }
}

pub fn digest<T: Hash>(t: &T) -> u64 {
    // FNV-1a over the std Hash stream: deterministic across processes (no random keys)
    struct Fnv(u64);
    impl Hasher for Fnv {
        fn finish(&self) -> u64 {
            self.0
        }
        fn write(&mut self, bytes: &[u8]) {
            for b in bytes {
                self.0 ^= *b as u64;
                self.0 = self.0.wrapping_mul(0x100000001b3);
            }
        }
    }
    let mut h = Fnv(0xcbf29ce484222325);
    t.hash(&mut h);
    // final avalanche
    let mut x = h.0;
    x ^= x >> 33;
    x = x.wrapping_mul(0xff51afd7ed558ccd);
    x ^= x >> 33;
    x
}

pub fn mix(a: u64, b: u64) -> u64 {
    let mut x = a ^ b.wrapping_mul(0x9E3779B97F4A7C15);
    x ^= x >> 30;
    x = x.wrapping_mul(0xbf58476d1ce4e5b9);
    x ^= x >> 27;
    x = x.wrapping_mul(0x94d049bb133111eb);
    x ^= x >> 31;
    x
}

/// Deterministic expansion of a *generated* seed into further choices (the seed itself
/// always comes from a proptest strategy or an enumeration index, never from a clock).
#[derive(Clone)]
pub struct Expand(pub u64);
impl Expand {
    pub fn next(&mut self) -> u64 {
        self.0 = self.0.wrapping_add(0x9E3779B97F4A7C15);
        let mut z = self.0;
        z = (z ^ (z >> 30)).wrapping_mul(0xBF58476D1CE4E5B9);
        z = (z ^ (z >> 27)).wrapping_mul(0x94D049BB133111EB);
        z ^ (z >> 31)
    }
    pub fn below(&mut self, n: u64) -> u64 {
        ((self.next() >> 32) * n) >> 32
    }
}

/// Per-worker statistics; frozen at the first failure so that shrinking re-runs do not
/// inflate the counts.
pub struct Stats {
    pub evaluations: u64,
    pub nontrivial: HashSet<u64>,
    pub nontrivial_cap: usize,
    pub classes: BTreeMap<String, u64>,
    pub samples: Vec<Value>,
    pub sample_cap: usize,
    pub excluded: u64,
    pub rejected: u64,
    pub frozen: bool,
    pub next_sample_at: u64,
    pub sample_gap: u64,
}

impl Stats {
    pub fn new() -> Stats {
        Stats {
            evaluations: 0,
            nontrivial: HashSet::new(),
            nontrivial_cap: 3_000_000,
            classes: BTreeMap::new(),
            samples: Vec::new(),
            sample_cap: 2,
            excluded: 0,
            rejected: 0,
            frozen: false,
            next_sample_at: 0,
            sample_gap: 400,
        }
    }
    pub fn eval(&mut self, n: u64) {
        if !self.frozen {
            self.evaluations += n;
        }
    }
    /// record a distinct non-trivial case by digest; returns true if it was new
    pub fn nontrivial(&mut self, d: u64) -> bool {
        if self.frozen || self.nontrivial.len() >= self.nontrivial_cap {
            return false;
        }
        self.nontrivial.insert(d)
    }
    pub fn class(&mut self, name: &str) {
        self.class_n(name, 1)
    }
    pub fn class_n(&mut self, name: &str, n: u64) {
        if self.frozen {
            return;
        }
        if let Some(c) = self.classes.get_mut(name) {
            *c += n;
        } else {
            self.classes.insert(name.to_string(), n);
        }
    }
    /// samples are spread out: after one is taken the next is accepted only a few hundred
    /// evaluations later, so that they do not all come from one case
    pub fn want_sample(&self) -> bool {
        !self.frozen && self.samples.len() < self.sample_cap && self.evaluations >= self.next_sample_at
    }
    pub fn sample(&mut self, v: Value) {
        if self.want_sample() {
            self.samples.push(v);
            self.next_sample_at = self.evaluations + self.sample_gap;
        }
    }
}

/// What a failing case looks like when it leaves a worker.
#[derive(Clone, Debug)]
pub struct Fail {
    /// replayable case (property-specific JSON)
    pub case: Value,
    pub detail: String,
}

pub struct WorkerCtx {
    pub id: String,
    pub tier: Tier,
    pub seed: u64,
    pub idx: u64,
    pub n: u64,
    pub dir: PathBuf,
    pub stats: RefCell<Stats>,
    pub current: RefCell<Option<std::fs::File>>,
    /// shrink budget (proptest iterations); expensive properties lower it
    pub max_shrink: std::cell::Cell<u32>,
}

impl WorkerCtx {
    /// this worker's share of `total` work items
    pub fn share(&self, total: u64) -> u64 {
        total / self.n + if self.idx < total % self.n { 1 } else { 0 }
    }
    pub fn wseed(&self, salt: u64) -> u64 {
        mix(mix(self.seed, self.idx + 1), mix(digest(&self.id), salt))
    }
    /// does item `i` of an enumeration belong to this worker?
    pub fn mine(&self, i: u64) -> bool {
        i % self.n == self.idx
    }
    /// remember the case about to be executed, so that a crash (signal) can be replayed
    pub fn about_to_run(&self, case: &Value) {
        use std::io::{Seek, SeekFrom};
        let mut slot = self.current.borrow_mut();
        if slot.is_none() {
            *slot = std::fs::File::create(self.dir.join(format!("current-{}.json", self.idx))).ok();
        }
        if let Some(f) = slot.as_mut() {
            let text = case.to_string();
            let _ = f.seek(SeekFrom::Start(0));
            let _ = f.write_all(text.as_bytes());
            let _ = f.set_len(text.len() as u64);
        }
    }
}

/// run `f` with file descriptor 2 pointing at /dev/null (code under test that reports
/// progress on stderr would otherwise fill the pipe the driver reads only at the end)
pub fn with_stderr_silenced<R>(f: impl FnOnce() -> R) -> R {
    struct Restore(i32);
    impl Drop for Restore {
        fn drop(&mut self) {
            unsafe {
                libc::dup2(self.0, 2);
                libc::close(self.0);
            }
        }
    }
    let guard = unsafe {
        let saved = libc::dup(2);
        let null = libc::open(b"/dev/null\0".as_ptr() as *const libc::c_char, libc::O_WRONLY);
        if saved >= 0 && null >= 0 {
            libc::dup2(null, 2);
            libc::close(null);
            Some(Restore(saved))
        } else {
            None
        }
    };
    let r = f();
    drop(guard);
    r
}

pub fn silent_panics() {
    std::panic::set_hook(Box::new(|_| {}));
}

pub fn panic_message(e: &(dyn std::any::Any + Send)) -> String {
    e.downcast_ref::<String>()
        .cloned()
        .or_else(|| e.downcast_ref::<&str>().map(|s| s.to_string()))
        .unwrap_or_else(|| "panic with non-string payload".to_string())
}

/// Run `f`, turning a panic into `Err(message)`; the location is appended when known.
pub fn guarded<T>(f: impl FnOnce() -> T) -> Result<T, String> {
    LAST_PANIC_LOC.with(|l| l.borrow_mut().take());
    match std::panic::catch_unwind(std::panic::AssertUnwindSafe(f)) {
        Ok(v) => Ok(v),
        Err(e) => {
            let loc = LAST_PANIC_LOC.with(|l| l.borrow_mut().take()).unwrap_or_default();
            Err(format!("panic: {} {}", panic_message(&*e), loc))
        }
    }
}

thread_local! {
    pub static LAST_PANIC_LOC: RefCell<Option<String>> = const { RefCell::new(None) };
}

/// panic hook that records the location (for signatures and messages) and prints nothing
pub fn recording_panics() {
    std::panic::set_hook(Box::new(|info| {
        let loc = info.location().map(|l| format!("at {}:{}", l.file(), l.line())).unwrap_or_default();
        LAST_PANIC_LOC.with(|l| *l.borrow_mut() = Some(loc));
    }));
}

/// Drive a proptest strategy for `cases` cases. `run` gets the generated case and the
/// stats; returning `Err(detail)` (or panicking) is a failure, which proptest then shrinks.
pub fn run_proptest<S, F>(ctx: &WorkerCtx, salt: u64, cases: u64, strat: S, to_json: impl Fn(&S::Value) -> Value, run: F) -> Result<(), Fail>
where
    S: Strategy,
    S::Value: Clone + std::fmt::Debug,
    F: Fn(&S::Value, &mut Stats) -> Result<(), String>,
{
    if cases == 0 {
        return Ok(());
    }
    let seed = ctx.wseed(salt);
    let mut bytes = [0u8; 32];
    for i in 0..4 {
        bytes[i * 8..i * 8 + 8].copy_from_slice(&mix(seed, i as u64).to_le_bytes());
    }
    let cfg = Config {
        cases: cases.min(u32::MAX as u64) as u32,
        failure_persistence: None,
        max_shrink_iters: ctx.max_shrink.get(),
        max_global_rejects: u32::MAX,
        max_local_rejects: u32::MAX,
        verbose: 0,
        ..Config::default()
    };
    let mut runner = TestRunner::new_with_rng(cfg, TestRng::from_seed(RngAlgorithm::ChaCha, &bytes));
    let last_detail: RefCell<String> = RefCell::new(String::new());
    let res = runner.run(&strat, |case| {
        {
            let st = ctx.stats.borrow();
            if !st.frozen {
                drop(st);
                ctx.about_to_run(&to_json(&case));
            }
        }
        let r = guarded(|| {
            let mut st = ctx.stats.borrow_mut();
            run(&case, &mut st)
        });
        // a panic while the RefCell was borrowed leaves it released (guard dropped on unwind)
        let r = match r {
            Ok(r) => r,
            Err(p) => Err(p),
        };
        match r {
            Ok(()) => Ok(()),
            Err(detail) => {
                let first = !ctx.stats.borrow().frozen;
                if first {
                    // persist the first (unshrunk) failure at once: if shrinking gets stuck on a
                    // candidate that never returns, the driver still has a failing case to confirm
                    let _ = std::fs::write(ctx.dir.join(format!("first-failure-{}.json", ctx.idx)), json!({"case": to_json(&case), "detail": detail}).to_string());
                }
                ctx.stats.borrow_mut().frozen = true;
                *last_detail.borrow_mut() = detail.clone();
                Err(TestCaseError::fail(detail))
            }
        }
    });
    match res {
        Ok(()) => Ok(()),
        Err(TestError::Fail(reason, case)) => {
            // re-run the minimal case once to get its own detail text
            let detail = match guarded(|| {
                let mut st = ctx.stats.borrow_mut();
                run(&case, &mut st)
            }) {
                Ok(Err(d)) => d,
                Err(p) => p,
                Ok(Ok(())) => format!("{reason} (minimal case did not fail again when re-run: flaky?)"),
            };
            Err(Fail { case: to_json(&case), detail })
        }
        Err(TestError::Abort(reason)) => Err(Fail { case: json!({"abort": reason.to_string()}), detail: format!("proptest aborted: {reason}") }),
    }
}

/// Generate a single value from a strategy with a fixed seed (used for samples / tests).
pub fn sample_value<S: Strategy>(strat: &S, seed: u64) -> S::Value {
    let mut bytes = [0u8; 32];
    bytes[..8].copy_from_slice(&seed.to_le_bytes());
    let mut runner = TestRunner::new_with_rng(Config::default(), TestRng::from_seed(RngAlgorithm::ChaCha, &bytes));
    strat.new_tree(&mut runner).unwrap().current()
}

// ---------------------------------------------------------------------------------------
// check registry

pub struct CheckDef {
    pub id: &'static str,
    /// run this worker's share; Err = first (shrunk) failure
    pub worker: fn(&WorkerCtx) -> Result<(), Fail>,
    /// re-execute exactly one saved case, bypassing proptest
    pub replay: fn(&Value) -> Result<(), String>,
    /// non-triviality / generation rule text for evidence
    pub rule: &'static str,
    pub assumptions: &'static [&'static str],
    pub exhaustive: fn(Tier) -> bool,
    pub uses_reference: bool,
    /// number of worker processes (0 = all cores)
    pub workers: fn(Tier) -> u64,
    /// classify a failure as a known finding: returns the key of an `open` entry
    pub known_signature: fn(&Value, &str) -> Option<&'static str>,
    /// build profile whose binary runs this check ("release" or "checked")
    pub profile: &'static str,
}

pub fn no_signature(_: &Value, _: &str) -> Option<&'static str> {
    None
}

// ---------------------------------------------------------------------------------------
// known findings

#[derive(Clone, Debug)]
pub struct Known {
    pub property: String,
    pub key: String,
    pub status: String,
    pub text: String,
    pub reproducer: Option<String>,
    /// further reproducers of the same root cause
    pub reproducers: Vec<String>,
}

pub fn load_known() -> Vec<Known> {
    let p = Path::new(VERIF).join("known_findings.json");
    let Ok(s) = std::fs::read_to_string(&p) else { return vec![] };
    let Ok(v) = serde_json::from_str::<Value>(&s) else { return vec![] };
    let mut out = vec![];
    for e in v["findings"].as_array().cloned().unwrap_or_default() {
        out.push(Known {
            property: e["property"].as_str().unwrap_or("").to_string(),
            key: e["key"].as_str().unwrap_or("").to_string(),
            status: e["status"].as_str().unwrap_or("").to_string(),
            text: e["text"].as_str().unwrap_or("").to_string(),
            reproducer: e["reproducer"].as_str().map(|s| s.to_string()),
            reproducers: e["reproducers"].as_array().map(|a| a.iter().filter_map(|x| x.as_str().map(|s| s.to_string())).collect()).unwrap_or_default(),
        });
    }
    out
}

// ---------------------------------------------------------------------------------------
// worker entry

/// cap the address space of a worker so that a runaway allocation (e.g. a search that never
/// terminates while being observed) ends in an abort that the driver reports with the last
/// recorded case, instead of exhausting the machine
fn limit_memory() {
    let gb: u64 = std::env::var("VERIF_WORKER_MEM_GB").ok().and_then(|s| s.parse().ok()).unwrap_or(6);
    let lim = libc::rlimit { rlim_cur: gb << 30, rlim_max: gb << 30 };
    unsafe {
        libc::setrlimit(libc::RLIMIT_AS, &lim);
    }
}

pub fn worker_main(def: &CheckDef, tier: Tier, seed: u64, idx: u64, n: u64, dir: &Path) -> i32 {
    recording_panics();
    limit_memory();
    let ctx = WorkerCtx { id: def.id.to_string(), tier, seed, idx, n, dir: dir.to_path_buf(), stats: RefCell::new(Stats::new()), current: RefCell::new(None), max_shrink: std::cell::Cell::new(3000) };
    let t0 = Instant::now();
    let res = (def.worker)(&ctx);
    let st = ctx.stats.borrow();
    // digests as a binary side file
    let dpath = dir.join(format!("digests-{idx}.bin"));
    if let Ok(mut f) = std::fs::File::create(&dpath) {
        let mut buf = Vec::with_capacity(st.nontrivial.len() * 8);
        for d in &st.nontrivial {
            buf.extend_from_slice(&d.to_le_bytes());
        }
        let _ = f.write_all(&buf);
    }
    let failure = match &res {
        Ok(()) => Value::Null,
        Err(f) => json!({"case": f.case, "detail": f.detail}),
    };
    let out = json!({
        "evaluations": st.evaluations,
        "classes": st.classes,
        "samples": st.samples,
        "excluded": st.excluded,
        "rejected": st.rejected,
        "nontrivial_capped": st.nontrivial.len() >= st.nontrivial_cap,
        "failure": failure,
        "wall_s": t0.elapsed().as_secs_f64(),
    });
    let tmp = dir.join(format!("result-{idx}.json.tmp"));
    let fin = dir.join(format!("result-{idx}.json"));
    std::fs::write(&tmp, out.to_string()).expect("write worker result");
    std::fs::rename(&tmp, &fin).expect("rename worker result");
    0
}

// ---------------------------------------------------------------------------------------
// driver

fn write_replay(id: &str, case: &Value, detail: &str, kind: &str) -> PathBuf {
    let dir = Path::new(VERIF).join("replays");
    let _ = std::fs::create_dir_all(&dir);
    let body = json!({"property": id, "kind": kind, "case": case, "detail": detail});
    let d = digest(&case.to_string());
    let p = dir.join(format!("{id}-{d:016x}.json"));
    let _ = std::fs::write(&p, serde_json::to_string_pretty(&body).unwrap());
    p
}

fn exe() -> PathBuf {
    std::env::current_exe().expect("current exe")
}

/// run `vcheck replay-case <id> <file>` in a child so that a crash cannot take the driver down.
/// Ok(None) = passed, Ok(Some(detail)) = failed, Err = infrastructure
fn replay_in_child(id: &str, file: &Path) -> Result<Option<String>, String> {
    let out = Command::new(exe())
        .args(["replay-case", id, file.to_str().unwrap()])
        .stdout(Stdio::piped())
        .stderr(Stdio::piped())
        .output()
        .map_err(|e| format!("spawn: {e}"))?;
    match out.status.code() {
        Some(0) => Ok(None),
        Some(1) => Ok(Some(String::from_utf8_lossy(&out.stdout).trim().to_string())),
        Some(c) => Err(format!("replay child exit {c}: {}", String::from_utf8_lossy(&out.stderr))),
        None => Ok(Some(format!("crashed with {:?}", out.status))),
    }
}

pub fn replay_case_main(def: &CheckDef, file: &Path) -> i32 {
    recording_panics();
    // single cases are always replayed node-bounded (see obs.rs): a search that never consults
    // its limit becomes a deterministic verdict instead of a hang
    crate::obs::NODE_MODE.store(std::env::var("VERIF_NODE_MODE").map(|v| v != "0").unwrap_or(true), std::sync::atomic::Ordering::Relaxed);
    let Ok(s) = std::fs::read_to_string(file) else {
        eprintln!("cannot read {}", file.display());
        return 2;
    };
    let Ok(v) = serde_json::from_str::<Value>(&s) else {
        eprintln!("not JSON: {}", file.display());
        return 2;
    };
    let case = if v.get("case").is_some() { v["case"].clone() } else { v };
    match guarded(|| (def.replay)(&case)) {
        Ok(Ok(())) => 0,
        Ok(Err(d)) | Err(d) => {
            println!("{d}");
            1
        }
    }
}

pub struct DriverOutcome {
    pub code: i32,
}

pub fn driver_main(def: &CheckDef, tier: Tier, seed: u64) -> i32 {
    let t0 = Instant::now();
    let id = def.id;
    if def.uses_reference {
        if let Err(e) = refchess::self_test(tier == Tier::Thorough) {
            eprintln!("ORACLE SELF-TEST FAILED (inconclusive, not a violation): {e}");
            return 2;
        }
    }
    let known: Vec<Known> = load_known().into_iter().filter(|k| k.property == id).collect();
    let mut violations: Vec<(PathBuf, String)> = vec![];
    let mut known_lines: Vec<String> = vec![];
    let mut replayed = 0u64;

    // 1. replay tier: saved regression inputs, then reproducers of open known findings
    let cdir = Path::new(VERIF).join("corpus").join(id);
    let mut files: Vec<PathBuf> = std::fs::read_dir(&cdir)
        .map(|rd| rd.filter_map(|e| e.ok()).map(|e| e.path()).filter(|p| p.extension().map_or(false, |x| x == "json")).collect())
        .unwrap_or_default();
    files.sort();
    for f in &files {
        replayed += 1;
        match replay_in_child(id, f) {
            Ok(None) => {}
            Ok(Some(detail)) => violations.push((f.clone(), detail)),
            Err(e) => {
                eprintln!("replay infrastructure failure: {e}");
                return 2;
            }
        }
    }
    for k in known.iter().filter(|k| k.status == "open") {
        let mut still_fails = false;
        for r in k.reproducer.iter().chain(k.reproducers.iter()) {
            let p = Path::new(VERIF).join(r);
            replayed += 1;
            match replay_in_child(id, &p) {
                Ok(None) => {} // repaired by someone: nothing to say
                Ok(Some(_)) => still_fails = true,
                Err(e) => {
                    eprintln!("replay infrastructure failure: {e}");
                    return 2;
                }
            }
        }
        if still_fails {
            known_lines.push(format!("KNOWN-FINDING: property={id} {}", k.text));
        }
    }

    // 2. search tier
    let ncpu = std::thread::available_parallelism().map(|n| n.get() as u64).unwrap_or(4);
    let mut n = (def.workers)(tier);
    if n == 0 || n > ncpu {
        n = ncpu;
    }
    if let Ok(s) = std::env::var("VERIF_WORKERS") {
        if let Ok(v) = s.parse::<u64>() {
            n = v.max(1);
        }
    }
    let dir = Path::new(VERIF).join("target").join("run").join(format!("{id}-{}-{}", tier.name(), std::process::id()));
    let _ = std::fs::remove_dir_all(&dir);
    std::fs::create_dir_all(&dir).expect("run dir");
    let mut children = vec![];
    for i in 0..n {
        let ch = Command::new(exe())
            .args(["worker", id, tier.name(), &seed.to_string(), &i.to_string(), &n.to_string(), dir.to_str().unwrap()])
            .stdout(Stdio::null())
            .stderr(Stdio::piped())
            .spawn();
        match ch {
            Ok(c) => children.push((i, c)),
            Err(e) => {
                eprintln!("cannot spawn worker: {e}");
                return 2;
            }
        }
    }
    let budget = Duration::from_secs(
        std::env::var("VERIF_WATCHDOG_S").ok().and_then(|s| s.parse().ok()).unwrap_or(tier.pick(900, 7200)),
    );
    let mut statuses = vec![];
    let mut timed_out = false;
    // Stall triage: a worker that sits on one case for longer than `stall` is not judged by the
    // clock. Its case is replayed in a child in node-bounded mode (obs.rs); only a deterministic
    // verdict of that replay ("more than N nodes without consulting the limit", a panic, an
    // oracle failure) is reported. If the replay passes or does not finish either, nothing is
    // concluded from the stall and the run goes on until the global watchdog.
    let stall = Duration::from_secs(std::env::var("VERIF_STALL_S").ok().and_then(|s| s.parse().ok()).unwrap_or(tier.pick(45, 600)));
    let mut seen: std::collections::HashMap<u64, (u64, Instant)> = std::collections::HashMap::new();
    let mut triaged: HashSet<u64> = HashSet::new();
    let mut last_scan = Instant::now();
    let mut stall_violation: Option<(PathBuf, String)> = None;
    let mut pending: Vec<(Value, PathBuf, String, std::process::Child, Instant)> = vec![];
    let t_replay = Duration::from_secs(tier.pick(150, 900));
    let mut live: Vec<(u64, std::process::Child)> = children;
    while !live.is_empty() {
        let mut still = vec![];
        for (i, mut c) in live {
            match c.try_wait() {
                Ok(Some(st)) => {
                    let mut err = String::new();
                    if let Some(mut e) = c.stderr.take() {
                        use std::io::Read;
                        let _ = e.read_to_string(&mut err);
                    }
                    statuses.push((i, st, err));
                }
                Ok(None) => still.push((i, c)),
                Err(_) => {}
            }
        }
        live = still;
        if live.is_empty() {
            break;
        }
        if t0.elapsed() > budget || stall_violation.is_some() {
            for (_, c) in live.iter_mut() {
                let _ = c.kill();
                let _ = c.wait();
            }
            for (_, p, _, ch, _) in pending.iter_mut() {
                let _ = ch.kill();
                let _ = ch.wait();
                let _ = std::fs::remove_file(&*p);
            }
            timed_out = stall_violation.is_none();
            break;
        }
        // collect finished triage replays
        let mut keep = vec![];
        for (case, p, detail0, mut ch, started) in pending.drain(..) {
            match ch.try_wait() {
                Ok(Some(st)) => {
                    let mut out = String::new();
                    if let Some(mut o) = ch.stdout.take() {
                        use std::io::Read;
                        let _ = o.read_to_string(&mut out);
                    }
                    let failed = match st.code() {
                        Some(0) => None,
                        Some(1) => Some(out.trim().to_string()),
                        Some(_) => None,
                        None => Some(format!("crashed with {st:?}")),
                    };
                    match failed {
                        Some(d) if stall_violation.is_none() => {
                            let detail = format!("{detail0}{d}");
                            let p = write_replay(id, &case, &detail, "stall");
                            stall_violation = Some((p, detail));
                        }
                        _ => {
                            eprintln!("node-bounded replay of a stalled case gave no verdict (exit {:?}); nothing concluded from the stall", st.code());
                            let _ = std::fs::remove_file(&p);
                        }
                    }
                }
                Ok(None) => {
                    if started.elapsed() > t_replay {
                        let _ = ch.kill();
                        let _ = ch.wait();
                        eprintln!("node-bounded replay of a stalled case did not finish in {t_replay:?}; nothing concluded from the stall");
                        let _ = std::fs::remove_file(&p);
                    } else {
                        keep.push((case, p, detail0, ch, started));
                    }
                }
                Err(_) => {}
            }
        }
        pending = keep;
        if last_scan.elapsed() > Duration::from_secs(2) {
            last_scan = Instant::now();
            for (i, _) in live.iter() {
                let cur = dir.join(format!("current-{i}.json"));
                let Ok(text) = std::fs::read_to_string(&cur) else { continue };
                let h = digest(&text);
                let e = seen.entry(*i).or_insert((h, Instant::now()));
                if e.0 != h {
                    *e = (h, Instant::now());
                    continue;
                }
                if e.1.elapsed() < stall || triaged.contains(&h) || pending.len() >= 4 || triaged.len() >= 12 {
                    continue;
                }
                let Ok(mut case) = serde_json::from_str::<Value>(&text) else { continue };
                triaged.insert(h);
                let mut detail0 = format!("worker {i} did not get past this case within {stall:?}; node-bounded replay: ");
                // a worker that already found a failure and is stuck while shrinking it: confirm the
                // unshrunk failure instead
                if let Some(ff) = std::fs::read_to_string(dir.join(format!("first-failure-{i}.json"))).ok().and_then(|s| serde_json::from_str::<Value>(&s).ok()) {
                    case = ff["case"].clone();
                    detail0 = format!("worker {i} found this failing case and did not finish shrinking it within {stall:?}; replay of the unshrunk case: ");
                }
                eprintln!("worker {i} has been on one case for {:?}: replaying it node-bounded", e.1.elapsed());
                let p = write_replay(id, &case, &detail0, "stall");
                if let Ok(ch) = Command::new(exe()).args(["replay-case", id, p.to_str().unwrap()]).stdout(Stdio::piped()).stderr(Stdio::null()).spawn() {
                    pending.push((case, p, detail0, ch, Instant::now()));
                }
            }
        }
        std::thread::sleep(Duration::from_millis(20));
    }
    for (_, p, _, ch, _) in pending.iter_mut() {
        let _ = ch.kill();
        let _ = ch.wait();
        let _ = std::fs::remove_file(&*p);
    }
    if let Some(v) = stall_violation {
        violations.push(v);
        // the remaining workers were stopped: their partial results are not merged
        statuses.clear();
    }
    if timed_out {
        eprintln!("watchdog: worker exceeded {budget:?}; inconclusive (not a violation)");
        let _ = std::fs::remove_dir_all(&dir);
        return 2;
    }

    let mut evaluations = 0u64;
    let mut classes: BTreeMap<String, u64> = BTreeMap::new();
    let mut samples: Vec<Value> = vec![];
    let mut excluded = 0u64;
    let mut rejected = 0u64;
    let mut digests: HashSet<u64> = HashSet::new();
    let mut capped = false;
    let mut infra_err = None;
    for (i, st, err) in &statuses {
        let rpath = dir.join(format!("result-{i}.json"));
        if !st.success() || !rpath.exists() {
            // exit code 3 is the harness's own "infrastructure problem" exit; every other abnormal end
            // (signal, abort, panic exit 101, abi_stable's exit(1) on a panic crossing the plugin
            // boundary) happened inside the code under test while running the recorded case
            if st.code() != Some(3) {
                // died on a signal / abort: the last recorded case is the replay file
                let cur = dir.join(format!("current-{i}.json"));
                let case = std::fs::read_to_string(&cur).ok().and_then(|s| serde_json::from_str::<Value>(&s).ok()).unwrap_or(Value::Null);
                let detail = format!("worker {i} died ({st:?}) while running this case; stderr: {}", err.chars().take(400).collect::<String>());
                let p = write_replay(id, &case, &detail, "crash");
                violations.push((p, detail));
            } else {
                infra_err = Some(format!("worker {i} failed: {st:?} {err}"));
            }
            continue;
        }
        let v: Value = match std::fs::read_to_string(&rpath).ok().and_then(|s| serde_json::from_str(&s).ok()) {
            Some(v) => v,
            None => {
                infra_err = Some(format!("worker {i}: unreadable result"));
                continue;
            }
        };
        evaluations += v["evaluations"].as_u64().unwrap_or(0);
        excluded += v["excluded"].as_u64().unwrap_or(0);
        rejected += v["rejected"].as_u64().unwrap_or(0);
        capped |= v["nontrivial_capped"].as_bool().unwrap_or(false);
        if let Some(m) = v["classes"].as_object() {
            for (k, c) in m {
                *classes.entry(k.clone()).or_insert(0) += c.as_u64().unwrap_or(0);
            }
        }
        if let Some(a) = v["samples"].as_array() {
            for s in a {
                if samples.len() < 8 {
                    samples.push(s.clone());
                }
            }
        }
        if let Ok(b) = std::fs::read(dir.join(format!("digests-{i}.bin"))) {
            for ch in b.chunks_exact(8) {
                digests.insert(u64::from_le_bytes(ch.try_into().unwrap()));
            }
        }
        if !v["failure"].is_null() {
            let case = v["failure"]["case"].clone();
            let detail = v["failure"]["detail"].as_str().unwrap_or("").to_string();
            // known finding? (signature evaluated on the failing case / detail, never blanket)
            if let Some(key) = (def.known_signature)(&case, &detail) {
                if known.iter().any(|k| k.key == key && k.status == "open") {
                    excluded += 1;
                    let text = known.iter().find(|k| k.key == key).map(|k| k.text.clone()).unwrap_or_default();
                    let line = format!("KNOWN-FINDING: property={id} {text}");
                    if !known_lines.contains(&line) {
                        known_lines.push(line);
                    }
                    continue;
                }
            }
            let p = write_replay(id, &case, &detail, "search");
            violations.push((p, detail));
        }
    }
    let _ = std::fs::remove_dir_all(&dir);
    if let Some(e) = infra_err {
        eprintln!("infrastructure failure (inconclusive): {e}");
        return 2;
    }

    // 3. evidence
    let wall = t0.elapsed().as_secs_f64();
    let mut coverage = json!({
        "evaluations": evaluations,
        "distinct_nontrivial": digests.len(),
        "rule": def.rule,
        "samples": samples,
        "classes": classes,
        "excluded_known_findings": excluded,
        "generator_rejected": rejected,
        "replayed_saved_inputs": replayed,
        "workers": n,
        "distinct_count_capped": capped,
    });
    if (def.exhaustive)(tier) {
        coverage["exhaustive"] = json!(true);
    }
    let ev = json!({
        "property_id": id,
        "tier": tier.name(),
        "seed": seed,
        "level": "exploration",
        "coverage": coverage,
        "assumptions": def.assumptions,
        "wall_s": wall,
        "violations": violations.len(),
        "profile": def.profile,
        "known_findings_reported": known_lines,
    });
    let edir = Path::new(VERIF).join("evidence");
    let _ = std::fs::create_dir_all(&edir);
    let epath = edir.join(format!("{id}.json"));
    if std::env::var("VERIF_NO_EVIDENCE").is_err() {
        if let Err(e) = std::fs::write(&epath, serde_json::to_string_pretty(&ev).unwrap()) {
            eprintln!("cannot write evidence: {e}");
            return 2;
        }
    }

    for l in &known_lines {
        println!("{l}");
    }
    println!(
        "{id} {}: evaluations={evaluations} distinct_nontrivial={} replayed={replayed} excluded={excluded} wall={wall:.1}s violations={}",
        tier.name(),
        digests.len(),
        violations.len()
    );
    if violations.is_empty() {
        0
    } else {
        let mut seen: Vec<&PathBuf> = vec![];
        for (p, d) in &violations {
            if seen.contains(&p) {
                continue;
            }
            seen.push(p);
            if seen.len() > 6 {
                println!("  ... further violations not listed");
                break;
            }
            println!("VIOLATION property={id} replay={}", p.display());
            println!("  detail: {}", d.chars().take(1500).collect::<String>());
        }
        1
    }
}
